#!/bin/bash
# Build the overlay venv offline: python from /venv, orquesta's dependencies via a .pth
# to /venv's site-packages, orquesta itself from /repo's working tree, crosshair-tool
# (and z3-solver) from the offline wheelhouse.
set -e
cd "$(dirname "$0")"
V=.venv
if [ ! -x $V/bin/python ] || ! $V/bin/python -c "import crosshair, z3, orquesta" 2>/dev/null; then
  rm -rf $V
  /venv/bin/python -m venv $V
  SP=$($V/bin/python -c "import sysconfig; print(sysconfig.get_paths()['purelib'])")
  printf '/venv/lib/python3.12/site-packages\n' > $SP/_verif_overlay.pth
  PIP_NO_INDEX=1 $V/bin/pip install -q --no-index --find-links /opt/veriftools/wheels crosshair-tool z3-solver >/dev/null
fi
$V/bin/python -c "import crosshair, z3; print('setup ok: crosshair', crosshair.__version__, 'z3', z3.get_version_string())"
