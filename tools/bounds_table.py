#!/usr/bin/env python3
"""Prints, per property and tier, the obligations as registered (for DESIGN.md section 0.5)."""
import importlib, sys, collections
sys.path.insert(0, "/verif")
import vt
from vt.harness.common import deepen
for tier in ("quick", "thorough"):
    print("\n#### %s tier\n" % tier)
    print("| property | obligations (workers) | E1/E3 | E2c families (definition: max completion events; policy) |")
    print("|---|---|---|---|")
    for i in range(1, 21):
        prop = "C%02d" % i
        m = importlib.import_module("vt.harness." + prop)
        obs = m.obligations(tier)
        if tier == "thorough" and not getattr(m, "OWN_THOROUGH", False):
            obs = deepen(obs)
        e13 = sorted({o["id"].split(".")[2].split("#")[0] for o in obs if o["kind"] in ("e1", "e3")})
        fam = collections.OrderedDict()
        for o in obs:
            if o["kind"] != "e2c" or (o.get("params") or {}).get("twin"):
                continue
            p = o["params"]
            base = o["id"].split("#")[0].split("@")[0].split(".", 1)[1]
            pol = [k if v is True else "%s=%s" % (k, v) for k, v in p.items() if k not in ("did", "steps", "scenario", "tokens", "bits") and v not in (False, None)]
            key = base
            fam.setdefault(key, [p.get("steps"), pol, 0])
            fam[key][2] += 1
        txt = "; ".join("%s: %s%s%s" % (k.replace("e2c.", ""), v[0] if v[0] is not None else "-", (" [" + ", ".join(v[1]) + "]") if v[1] else "", (" x%d workers" % v[2]) if v[2] > 1 else "") for k, v in fam.items())
        print("| %s | %d | %s | %s |" % (prop, len(obs), ", ".join(e13) or "-", txt))
