#!/bin/bash
cd /verif; OUT=.work/seed_matrix5.txt; : > $OUT
run() { ID=$1; shift; tools/try_seed.sh $ID quick "$@" > .work/seed_$ID.out 2>&1; for P in "$@"; do RC=$(grep "== seed $ID vs $P " .work/seed_$ID.out | sed 's/.*exit //'); echo "$ID $P exit=$RC" >> $OUT; done; }
run r3_C04 C04
run r3_C06 C06
run r3_C08 C08
run r3_C11 C11
run r3_C13 C13
run r3_C14 C14
run r3_C15 C15
run r3_C16 C16 C01
run r3_C19 C19 C18 C05
run r3_C20 C20
echo DONE >> $OUT
