#!/bin/bash
cd /verif; OUT=.work/seed_matrix3.txt; : > $OUT
run() { ID=$1; shift; tools/try_seed.sh $ID quick "$@" > .work/seed_$ID.out 2>&1; for P in "$@"; do RC=$(grep "== seed $ID vs $P " .work/seed_$ID.out | sed 's/.*exit //'); echo "$ID $P exit=$RC" >> $OUT; done; }
run r2_C02 C02
run r2_C04 C04
run r2_C06 C06
run r2_C08 C08 C18
run r2_C13 C13
run r2_C14 C14
run r2_C15 C15
run r2_C16 C16
run r2_C20 C20
echo DONE >> $OUT
