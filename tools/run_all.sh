#!/bin/bash
# tools/run_all.sh <tier> [props...]   runs the registered checks one after another, logs exit code and wall time
TIER=${1:-quick}; shift
PROPS=${@:-C01 C02 C03 C04 C05 C06 C07 C08 C09 C10 C11 C12 C13 C14 C15 C16 C17 C18 C19 C20}
cd /verif; mkdir -p .work
LOG=.work/all_$TIER.log; : > $LOG
for P in $PROPS; do
  S=$(date +%s)
  ./check $P --tier $TIER > .work/run_${P}_$TIER.out 2>&1; RC=$?
  E=$(date +%s)
  echo "$P exit=$RC wall=$((E-S))s $(grep -c confirmed .work/run_${P}_$TIER.out) confirmed; $(grep -E '^(VIOLATION|HARNESS-ERROR|LEMMA-UNCONFIRMED)' .work/run_${P}_$TIER.out | wc -l) alarms" >> $LOG
done
echo DONE >> $LOG
