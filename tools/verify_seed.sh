#!/bin/bash
# tools/verify_seed.sh <seed-id> <property> <source MUTANT dir>
# Confirms a seeded change myself in a fresh scratch worktree of /repo HEAD:
#   applies cleanly, 865 tests pass with it, demo fails with it and passes without it.
# Stores patch.diff, demo.py, notes.md and meta.json under /verif/seeded/<seed-id>/.
set -u
ID=$1; PROP=$2; SRC=$3
DST=/verif/seeded/$ID
WT=/tmp/vs_$ID
mkdir -p $DST
cp $SRC/patch.diff $DST/patch.diff
cp $SRC/demo.py $DST/demo.py
[ -f $SRC/notes.md ] && cp $SRC/notes.md $DST/notes.md
git -C /repo worktree remove --force $WT 2>/dev/null
git -C /repo worktree add -q --detach $WT HEAD || exit 2
cd $WT
mkdir -p MUTANT && cp $DST/demo.py MUTANT/demo.py
PYTHONPATH=$WT /venv/bin/python MUTANT/demo.py >/tmp/vs_$ID.orig.log 2>&1; ORIG=$?
if ! git apply $DST/patch.diff 2>/tmp/vs_$ID.apply.log; then
  echo "$ID: patch does not apply: $(cat /tmp/vs_$ID.apply.log | head -3)"; APPLY=1
else APPLY=0; fi
TESTS=$(PYTHONPATH=$WT /venv/bin/python -m pytest -q -p no:cacheprovider 2>&1 | tail -1)
PYTHONPATH=$WT /venv/bin/python MUTANT/demo.py >/tmp/vs_$ID.mut.log 2>&1; MUT=$?
HEAD=$(git -C /repo rev-parse --short HEAD)
cd /
git -C /repo worktree remove --force $WT
/venv/bin/python - <<PY
import json
meta = {
 "id": "$ID", "property": "$PROP", "repo_head_when_confirmed": "$HEAD",
 "patch_applies": $APPLY == 0,
 "tests_with_change": """$TESTS""",
 "demo_exit_original": $ORIG, "demo_exit_with_change": $MUT,
 "confirmed": ($APPLY == 0 and $ORIG == 0 and $MUT != 0 and "865 passed" in """$TESTS"""),
 "needs_to_manifest": open("$DST/notes.md").read()[:3000] if __import__("os").path.exists("$DST/notes.md") else "",
 "what_i_ran": "fresh worktree of /repo HEAD; demo.py on original (exit 0 expected); git apply patch.diff; full pytest suite; demo.py with change (non-zero expected); worktree removed",
 "demo_failure": open("/tmp/vs_$ID.mut.log").read()[-800:],
}
json.dump(meta, open("$DST/meta.json", "w"), indent=1)
print("$ID", "confirmed" if meta["confirmed"] else "NOT CONFIRMED", meta["tests_with_change"], "orig", $ORIG, "mut", $MUT)
PY
rm -f /tmp/vs_$ID.*.log
