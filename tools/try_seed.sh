#!/bin/bash
# tools/try_seed.sh <seed-id> <tier> <prop> [<prop>...]
# Runs the registered checks against a scratch copy of /repo with the seeded change applied
# (VT_REPO points the harnesses at the copy; /repo itself is not touched). Evidence files are not rewritten.
ID=$1; TIER=$2; shift 2
WT=/tmp/ts_$ID
git -C /repo worktree remove --force $WT 2>/dev/null
git -C /repo worktree add -q --detach $WT HEAD || exit 2
git -C $WT apply /verif/seeded/$ID/patch.diff || { echo "patch does not apply"; git -C /repo worktree remove --force $WT; exit 2; }
cd /verif
for P in "$@"; do
  OUT=$(VT_REPO=$WT ./check $P --tier $TIER --no-evidence 2>&1); RC=$?
  echo "== seed $ID vs $P ($TIER): exit $RC"
  echo "$OUT" | grep -E "VIOLATION|HARNESS-ERROR|LEMMA-UNCONFIRMED|KNOWN-FINDING|^OK|^  " | head -12
done
git -C /repo worktree remove --force $WT
