#!/bin/bash
cd /verif; OUT=.work/seed_matrix2.txt; : > $OUT
run() { ID=$1; shift; tools/try_seed.sh $ID quick "$@" > .work/seed_$ID.out 2>&1; for P in "$@"; do RC=$(grep "== seed $ID vs $P " .work/seed_$ID.out | sed 's/.*exit //'); echo "$ID $P exit=$RC" >> $OUT; done; }
run m_resume_ignores_paused C09 C03
run r2_C01 C01 C07
run r2_C03 C03 C09
run r2_C05 C05
run r2_C07 C07
run r2_C09 C09 C02
run r2_C10 C10
run r2_C12 C12
run r2_C17 C17
run r2_C18 C18
run r2_C19 C19 C05
echo DONE >> $OUT
