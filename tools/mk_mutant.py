#!/usr/bin/env python3
"""tools/mk_mutant.py <id> <property> <file relative to repo> <old> <new> [note]
Creates /verif/seeded/<id>/patch.diff from a textual replacement on a scratch worktree (own calibration mutants)."""
import json, os, subprocess, sys
mid, prop, rel, old, new = sys.argv[1:6]
note = sys.argv[6] if len(sys.argv) > 6 else ""
wt = "/tmp/mk_" + mid
subprocess.run(["git", "-C", "/repo", "worktree", "remove", "--force", wt], capture_output=True)
subprocess.check_call(["git", "-C", "/repo", "worktree", "add", "-q", "--detach", wt, "HEAD"])
p = os.path.join(wt, rel)
s = open(p).read()
assert s.count(old) == 1, "pattern occurs %d times" % s.count(old)
open(p, "w").write(s.replace(old, new))
diff = subprocess.check_output(["git", "-C", wt, "diff"]).decode()
tests = subprocess.run(["/venv/bin/python", "-m", "pytest", "-q", "-p", "no:cacheprovider", "-x"], cwd=wt, env=dict(os.environ, PYTHONPATH=wt), capture_output=True, text=True).stdout.strip().splitlines()[-1]
subprocess.run(["git", "-C", "/repo", "worktree", "remove", "--force", wt])
d = "/verif/seeded/" + mid
os.makedirs(d, exist_ok=True)
open(d + "/patch.diff", "w").write(diff)
json.dump({"id": mid, "property": prop, "origin": "own calibration mutant (DESIGN.md section 12), not from a sub-agent", "tests_with_change": tests, "note": note}, open(d + "/meta.json", "w"), indent=1)
print(mid, tests)
