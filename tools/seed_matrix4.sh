#!/bin/bash
cd /verif; OUT=.work/seed_matrix4.txt; : > $OUT
run() { ID=$1; shift; tools/try_seed.sh $ID quick "$@" > .work/seed_$ID.out 2>&1; for P in "$@"; do RC=$(grep "== seed $ID vs $P " .work/seed_$ID.out | sed 's/.*exit //'); echo "$ID $P exit=$RC" >> $OUT; done; }
run r3_C01 C01
run r3_C02 C02 C12
run r3_C05 C05
run r3_C07 C07 C03
run r3_C09 C09
run r3_C10 C10
run r3_C12 C12
run r3_C17 C17
run r3_C18 C18
echo DONE >> $OUT
