#!/bin/bash
# tools/try_seed_only.sh <seed-id> <prop> <only-substr> [<prop> <only-substr>...]
# Like try_seed.sh but runs only the obligations whose id contains the given substring (quick tier).
ID=$1; shift
WT=/tmp/ts_$ID
git -C /repo worktree remove --force $WT 2>/dev/null
git -C /repo worktree add -q --detach $WT HEAD || exit 2
git -C $WT apply /verif/seeded/$ID/patch.diff || { echo "patch does not apply"; git -C /repo worktree remove --force $WT; exit 2; }
cd /verif
while [ $# -ge 2 ]; do
  P=$1; ONLY=$2; shift 2
  OUT=$(VT_REPO=$WT ./check $P --tier quick --only "$ONLY" --no-evidence 2>&1); RC=$?
  echo "== seed $ID vs $P [$ONLY]: exit $RC"
  echo "$OUT" | grep -E "VIOLATION|HARNESS-ERROR|LEMMA-UNCONFIRMED|^OK|^  " | cut -c1-300 | head -6
done
git -C /repo worktree remove --force $WT
