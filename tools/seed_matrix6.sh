#!/bin/bash
cd /verif; OUT=.work/seed_matrix6.txt; : > $OUT
run() { ID=$1; shift; tools/try_seed.sh $ID quick "$@" > .work/seed_$ID.out 2>&1; for P in "$@"; do RC=$(grep "== seed $ID vs $P " .work/seed_$ID.out | sed 's/.*exit //'); echo "$ID $P exit=$RC" >> $OUT; done; }
run r4_C20 C20
run r4_C06 C06
run r4_C17 C17
run r4_C05 C05
run r4_C15 C15
run r4_C07 C07
run r4_C01 C01
run r4_C12 C12
run r4_C10 C10
run r4_C04 C04
run r4_C14 C14 C13
echo DONE >> $OUT
