#!/usr/bin/env python3
"""Regenerates /verif/MANIFEST.json from the table below (claimed checks) and properties.jsonl."""
import json
import os

ROOT = os.path.dirname(os.path.dirname(os.path.abspath(__file__)))

E2C = ("bounded symbolic histories: CrossHair choice-point mode over the real, unmodified WorkflowConductor; "
       "every environment decision (report order, outcomes, result bits, request kind and position, crash points) is a z3-backed "
       "choice, 'Confirmed over all paths' = no history within the bound violates the monitors")
TRUST = ("CrossHair 0.0.110 path exhaustion and z3; provider contract A1-A4 (DESIGN.md section 4); the harness-side reference "
         "semantics (vt/oracle.py, written from the language docs); definitions limited to the catalogue in vt/defs.py and the stated event bounds")

CLAIMED = {
    "C01": ("model_checking", "Every offer justified by the reference token game (incl. split instances), nothing due lost, executed multiset equals the definition's, for every report order / outcome / condition-bit assignment within the bound on 16 catalogue definitions (sequence, fork, decision, joins, split routes, nested split + join, loops, a loop that leaves into a multi-referenced task on every iteration, sibling transitions reading each other's variables, parallel edges, Jinja), also with offered tasks started late and actions reported requested before running.", "0, 6"),
    "C02": ("model_checking", "After every API call the reported status is compared with the provider-side in-flight set, the task records and the reference failure rules, over all histories within the bound incl. one pause or cancel at any boundary, a resume before the workflow has come to rest, and actions that report paused/pending (A5 harness); E1: four lemmas on the real workflow state machine from every abstract pre-state.", "0, 6"),
    "C03": ("model_checking", "At every quiescent point (nothing in flight, nothing on offer) the status is a resting status, over all bounded histories with pause/cancel/resume, incl. with-items, retry, joins, loop.", "6"),
    "C04": ("model_checking", "After the first terminal status: no offers except documented clean-up tasks (also when an offered task is started late), status constant, late reports absorbed (incl. the late answer of a pending action whose retry condition cannot be evaluated), and a status request of any kind at any boundary that is rejected leaves serialize() byte-identical.", "6"),
    "C05": ("model_checking", "Twin conductors driven by the same symbolic decisions, one persisted+restored at every subset of the boundaries (small definitions) or at any single boundary (larger ones), also right after construction (with input/vars that fail to render): identical offers at every step, identical final persisted form, output, errors, status; restore is a serialisation fixpoint.", "6"),
    "C06": ("model_checking", "The context of every offered task equals the reference causal context (bindings with publish ids and the ids their publisher had received) for every report order and outcome assignment; output variables with a causally unique final binding are compared too.", "6"),
    "C07": ("model_checking", "E1: the real get_inbound_criteria_status decided for every barrier N (unbounded integer or all) over three inbound tasks; E2c (incl. inbound transitions guarded by truthy/falsy non-boolean values): joins start only when the reference barrier is satisfied, once per satisfaction, and an unreachable partially satisfied join fails the workflow, over all bounded histories incl. a pause.", "6"),
    "C08": ("model_checking", "Order twin: a symbolic report order against the canonical order with outcomes fixed per task; final status always equal; when succeeded also executed multiset, published values and every output variable not written by two concurrent branches.", "6"),
    "C09": ("model_checking", "Pause twin: pause at any boundary, resume at rest, against the same completion order without the pause: equal status, executed tasks, errors, output; nothing offered while pausing/paused; paused exactly at the last report (incl. a multi-referenced task live on two routes).", "6"),
    "C10": ("model_checking", "After a cancel request at any boundary (from running, pausing, paused, resuming; optional earlier pause): nothing offered, canceling while in flight, canceled at the last report whatever the outcomes (incl. with-items actions that report canceling/pausing first), output still rendered.", "6"),
    "C11": ("model_checking", "Fault-injecting evaluator: at each of 13 expression-bearing positions, in YAQL and Jinja (also for a pending action answered while the workflow is paused or canceled), the first or second evaluation raises the evaluator's exception or returns a wrong type, at any point of a bounded history and with a persist/restore before the first call: nothing escapes, an error entry names the task/transition, the workflow is failed, nothing further is offered.", "6"),
    "C12": ("model_checking", "E1: the real _evaluate_task_actions decided for every concurrency value (unbounded integer or absent) over 4 items with arbitrary prefix-closed statuses; E2c: item counts 0-4, concurrency absent/literal/expression/<=0, all item outcomes, report orders and pause/cancel positions; a with-items task started once per loop iteration on a new route.", "6"),
    "C13": ("model_checking", "E1: the real _evaluate_task_retry decided for all integers tally/count; E2c: retry spec and retry command, counts from expressions, in a branch, on a split task, in a loop, on with-items, with actions reported requested before running: at most count+1 executions per visit, re-offer only after a failed attempt with the configured delay, a retried attempt decides nothing.", "6"),
    "C14": ("exploration", "The solver enumerates every definition over three tasks with one transition per task (any target subset incl. self loops, join flags, all 6 declaration orders: 24,576 definitions) plus attribute/engine-command/retry/nested-split/cycle skeletons with join values all/0/1/2/3; each accepted one is composed by the real composer and compared with an independent reachability construction (nodes, edges with criteria and ref, roots, barriers, retry attributes, order invariance, serialisation fixpoint incl. edge keys); E2c: the working and the persisted graph of a conductor equal the composed graph after every call and restore of bounded histories on six definitions (retry policies, joins, parallel edges). Exhaustive within the family, no generalisation beyond it.", "6"),
    "C15": ("exploration", "Forward: every inspection-clean definition of a three-task family is conducted under all outcome assignments with 'no API call raises'. Converse: single-fault mutants (13 expression sites x documented reference forms x 2 languages, self-referencing assignments, name=value-shaped expressions, malformed expressions, undefined targets incl. names listed after an engine command, reserved names, missing start task) must each be reported by inspect().", "6"),
    "C16": ("other", "E1 lemmas with symbolic values through the real evaluators (all integers, booleans, None, nested containers; every documented YAQL form, the Jinja attribute form), ctx() hides every double-underscore name over a small alphabet, merge_dicts; an E3 z3 lemma on the live delimiter regexes; and a solver-enumerated catalogue of 44 awkward JSON values plus 10 ==-equal re-publish pairs through the whole data path in both languages with persistence between steps.", "6"),
    "C17": ("model_checking", "Rerun twin: after any bounded failing history, a default or explicit rerun request (request bits, reset_items, a non-existent task) is issued; rejected iff a requested execution does not exist and then leaves the persisted form unchanged; accepted => resuming; only requested/downstream/still-due work is re-executed; with the re-executed actions succeeding, status (and output when succeeded) equal the clean twin.", "6"),
    "C18": ("model_checking", "After every API call the persisted state is compared with the previous one: contexts, routes and records are prefix-extended; a started record keeps its input contexts and predecessors; a decided record keeps status and decisions; incl. retries, loops, split routes, dict-valued variables, a with-items task revisited through a loop, explicit reruns and a rerun followed by a late start.", "0, 6"),
    "C19": ("model_checking", "(a) at every point of bounded histories a second get_next_tasks() returns the same answer and leaves the persisted state unchanged; (b) every set built inside the orquesta modules iterates in a symbolic rotation per code site (over-approximating the hash seed): inspection report, graph, offers and persisted state after every event incl. an explicit rerun must equal the canonical order; divergences are confirmed by native runs under real hash seeds.", "6"),
    "C20": ("other", "E3: z3 regex queries over the live inline-parameter patterns for every documented value class and delimiter (no earlier alternative steals a prefix, the intended alternative stops at the value) for all strings up to the bound, post-processing on solver-produced values; E2c twins of shorthand vs long form (action parameters, publish, comma/list do incl. spellings without spaces, with-items string/mapping, omitted do) must agree on inspection, graph, offers, inputs, published values, output.", "6"),
}

E2T = "CrossHair (z3) choice-point symbolic execution of bounded histories against the real conductor"
TECH = {
    "C01": E2T + " + reference token-game oracle",
    "C02": E2T + "; status-truth monitors",
    "C03": E2T + "; quiescence monitor",
    "C04": E2T + " with symbolic status requests and late task starts; terminal-finality monitor",
    "C05": E2T + "; persist/restore twin with symbolic crash points",
    "C06": E2T + " + causal-context reference oracle",
    "C07": "CrossHair (z3) symbolic execution of the real get_inbound_criteria_status with an unbounded barrier integer, plus " + E2T + " with a barrier oracle",
    "C08": E2T + "; symbolic-order vs canonical-order twin",
    "C09": E2T + "; pause/resume twin",
    "C10": E2T + " with symbolic pause/cancel positions; cancellation monitor",
    "C11": E2T + " with a fault-injecting expression evaluator (symbolic position, kind, occurrence)",
    "C12": "CrossHair (z3) symbolic execution of the real _evaluate_task_actions with an unbounded concurrency integer, plus " + E2T + " over item outcomes/orders/pause/cancel",
    "C13": "CrossHair (z3) symbolic execution of the real _evaluate_task_retry over unbounded integers, plus " + E2T + " over attempt outcomes",
    "C14": "solver-enumerated (CrossHair/z3) bit-encoded definition family through the real composer vs an independent reference construction",
    "C15": "solver-enumerated (CrossHair/z3) definition family conducted by the real conductor, and solver-enumerated single-fault mutants through the real inspect()",
    "C16": "CrossHair (z3) symbolic values through the real YAQL/Jinja evaluators and helpers; z3 regex lemma on the live delimiter patterns; solver-chosen value catalogue through the real conductor",
    "C17": E2T + "; rerun vs clean-run twin with symbolic request sets",
    "C18": E2T + "; append-only monitor on consecutive persisted states",
    "C19": E2T + " with symbolic set-iteration order per code site (hash-seed over-approximation) and repeated-query monitor",
    "C20": "z3 string/regex queries generated from the live parser patterns (re._parser -> z3), plus CrossHair choice-point twins of shorthand vs long-form definitions",
}

PENDING = "check not built yet in this session (see DESIGN.md section 6 for the planned solver-based harness)"


def main():
    props = [json.loads(l) for l in open(os.path.join(ROOT, "properties.jsonl"))]
    checks = []
    na = []
    for p in props:
        pid = p["id"]
        if pid in CLAIMED:
            level, text, ref = CLAIMED[pid]
            checks.append({
                "property_id": pid,
                "quick_cmd": "./check %s --tier quick" % pid,
                "thorough_cmd": "./check %s --tier thorough" % pid,
                "evidence_file": "/verif/evidence/%s.json" % pid,
                "replay_cmd_template": "./check %s --replay {path}" % pid,
                "engine": "vt",
                "level_claimed": {"category": level, "text": text + " Bounded: nothing is claimed outside the stated bounds.", "design_ref": "DESIGN.md section " + ref + " (" + pid + ")"},
                "level_note": TRUST,
                "technique": TECH[pid],
            })
        else:
            na.append({"property_id": pid, "reason": NA.get(pid, PENDING)})
    m = {
        "version": 1,
        "setup_cmd": "./setup.sh",
        "hooks": {
            "guard": "ORQUESTA_VERIF",
            "enable": "no source hooks are needed: every stub, wrapper and observer is applied from the harness side at run time; the guard name is reserved and unused",
            "baseline_off_cmd": "cd /repo && /venv/bin/python -m pytest -ra -q -p no:cacheprovider --timeout=900 --continue-on-collection-errors",
            "source_commits": [],
            "add_only": True,
        },
        "engines": [{
            "name": "vt",
            "path": "/verif/vt",
            "serves_properties": sorted(CLAIMED),
            "kind_free_text": "solver-based checking of the real Python code: CrossHair 0.0.110 (symbolic execution with z3) in choice-point mode (E2c) and on kernel functions with symbolic arguments (E1); direct z3 encodings regenerated from the live module for regex-based parsing (E3)",
        }],
        "checks": checks,
        "notes": "Exit codes of ./check: 0 held on everything explored (KNOWN-FINDING lines for findings listed in known_findings.json), 1 VIOLATION, 3 HARNESS-ERROR (inconclusive/vacuous/non-reproducing; never success). Fix commits in /repo are listed in known_findings.json under 'fixed'.",
        "not_applicable": na,
    }
    with open(os.path.join(ROOT, "MANIFEST.json"), "w") as f:
        json.dump(m, f, indent=1)
    print("claimed", sorted(CLAIMED), "not claimed", [x["property_id"] for x in na])


NA = {}

if __name__ == "__main__":
    main()
