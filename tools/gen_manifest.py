#!/usr/bin/env python3
"""Regenerates /verif/MANIFEST.json from the table below (claimed checks) and properties.jsonl."""
import json
import os

ROOT = os.path.dirname(os.path.dirname(os.path.abspath(__file__)))

E2C = ("bounded symbolic histories: CrossHair choice-point mode over the real, unmodified WorkflowConductor; "
       "every environment decision (report order, outcomes, result bits, request kind and position, crash points) is a z3-backed "
       "choice, 'Confirmed over all paths' = no history within the bound violates the monitors")
TRUST = ("CrossHair 0.0.110 path exhaustion and z3; provider contract A1-A4 (DESIGN.md section 4); the harness-side reference "
         "semantics (vt/oracle.py, written from the language docs); definitions limited to the catalogue in vt/defs.py and the stated event bounds")

CLAIMED = {
    "C01": ("model_checking", "Every offer justified by the reference token game, nothing due lost, executed multiset equals the definition's, for every report order / outcome / condition-bit assignment within the bound on 12 catalogue definitions (sequence, fork, decision, joins, split routes, loops, parallel edges, Jinja).", "6"),
    "C02": ("model_checking", "After every API call the reported status is compared with the provider-side in-flight set, the task records and the reference failure rules, over all histories within the bound incl. one pause or cancel at any boundary.", "6"),
    "C03": ("model_checking", "At every quiescent point (nothing in flight, nothing on offer) the status is a resting status, over all bounded histories with pause/cancel/resume, incl. with-items, retry, joins, loop.", "6"),
    "C04": ("model_checking", "After the first terminal status: no offers except documented clean-up tasks, status constant, late reports absorbed, and a status request of any kind at any boundary that is rejected leaves serialize() byte-identical.", "6"),
    "C10": ("model_checking", "After a cancel request at any boundary (from running, pausing, paused, resuming; optional earlier pause): nothing offered, canceling while in flight, canceled at the last report whatever the outcomes, output still rendered.", "6"),
}

TECH = {
    "C01": "CrossHair (z3) choice-point symbolic execution of bounded histories against the real conductor + reference token-game oracle",
    "C02": "CrossHair (z3) choice-point symbolic execution of bounded histories against the real conductor; status-truth monitors",
    "C03": "CrossHair (z3) choice-point symbolic execution of bounded histories; quiescence monitor",
    "C04": "CrossHair (z3) choice-point symbolic execution of bounded histories with symbolic status requests; terminal-finality monitor",
    "C10": "CrossHair (z3) choice-point symbolic execution of bounded histories with symbolic pause/cancel positions; cancellation monitor",
}

PENDING = "check not built yet in this session (see DESIGN.md section 6 for the planned solver-based harness)"


def main():
    props = [json.loads(l) for l in open(os.path.join(ROOT, "properties.jsonl"))]
    checks = []
    na = []
    for p in props:
        pid = p["id"]
        if pid in CLAIMED:
            level, text, ref = CLAIMED[pid]
            checks.append({
                "property_id": pid,
                "quick_cmd": "./check %s --tier quick" % pid,
                "thorough_cmd": "./check %s --tier thorough" % pid,
                "evidence_file": "/verif/evidence/%s.json" % pid,
                "replay_cmd_template": "./check %s --replay {path}" % pid,
                "engine": "vt",
                "level_claimed": {"category": level, "text": text + " Bounded: nothing is claimed outside the stated bounds.", "design_ref": "DESIGN.md section " + ref + " (" + pid + ")"},
                "level_note": TRUST,
                "technique": TECH[pid],
            })
        else:
            na.append({"property_id": pid, "reason": NA.get(pid, PENDING)})
    m = {
        "version": 1,
        "setup_cmd": "./setup.sh",
        "hooks": {
            "guard": "ORQUESTA_VERIF",
            "enable": "no source hooks are needed: every stub, wrapper and observer is applied from the harness side at run time; the guard name is reserved and unused",
            "baseline_off_cmd": "cd /repo && /venv/bin/python -m pytest -ra -q -p no:cacheprovider --timeout=900 --continue-on-collection-errors",
            "source_commits": [],
            "add_only": True,
        },
        "engines": [{
            "name": "vt",
            "path": "/verif/vt",
            "serves_properties": sorted(CLAIMED),
            "kind_free_text": "solver-based checking of the real Python code: CrossHair 0.0.110 (symbolic execution with z3) in choice-point mode (E2c) and on kernel functions with symbolic arguments (E1); direct z3 encodings regenerated from the live module for regex-based parsing (E3)",
        }],
        "checks": checks,
        "notes": "Exit codes of ./check: 0 held on everything explored (KNOWN-FINDING lines for findings listed in known_findings.json), 1 VIOLATION, 3 HARNESS-ERROR (inconclusive/vacuous/non-reproducing; never success). Fix commits in /repo are listed in known_findings.json under 'fixed'.",
        "not_applicable": na,
    }
    with open(os.path.join(ROOT, "MANIFEST.json"), "w") as f:
        json.dump(m, f, indent=1)
    print("claimed", sorted(CLAIMED), "not claimed", [x["property_id"] for x in na])


NA = {}

if __name__ == "__main__":
    main()
