#!/usr/bin/env python3
"""tools/add_known.py <replay.json> <id> <what fails>  - review step: append a reproduced finding to known_findings.json"""
import json, sys
rp = json.load(open(sys.argv[1]))
path = "/verif/known_findings.json"
try:
    data = json.load(open(path))
except Exception:
    data = {"known": [], "fixed": []}
ob = rp["obligation"]
for k in ("known", "seed"):
    ob.pop(k, None)
sig = rp["native"]["signature"]
if any(e["signature"] == sig for e in data["known"]):
    print("already listed", sig); sys.exit(0)
data["known"].append({
    "id": sys.argv[2], "property": rp["property"], "signature": sig, "what": sys.argv[3],
    "witness": {"ob": ob, "decisions": rp["cex"]["decisions"], "history": rp["native"].get("history")},
})
json.dump(data, open(path, "w"), indent=1)
print("added", sig)
