#!/bin/bash
# tools/seed_matrix.sh  - runs every seeded change against the checks expected to matter; result table in .work/seed_matrix.txt
cd /verif; OUT=.work/seed_matrix.txt; : > $OUT
run() { ID=$1; shift; tools/try_seed.sh $ID quick "$@" > .work/seed_$ID.out 2>&1; for P in "$@"; do RC=$(grep "== seed $ID vs $P " .work/seed_$ID.out | sed 's/.*exit //'); echo "$ID $P exit=$RC" >> $OUT; done; }
run s_C01 C01
run s_C02 C02
run s_C03 C03
run s_C04 C04
run s_C05 C05
run s_C06 C06 C08
run s_C07 C07 C09 C02
run s_C08 C08 C06
run s_C09 C09 C03
run s_C10 C10
run s_C11 C11
run s_C12 C12
run s_C13 C13 C05
run s_C14 C14
run s_C15 C15
run s_C16 C16
run s_C17 C17
run s_C18 C18
run s_C19 C19
run s_C20 C20
run m_barrier_gt C07 C01
run m_retry_gt C13
run m_window_plus1 C12
run m_offer_pausing C09
run m_revert_F1 C11
run m_revert_F7 C20
run m_int_before_float C20
run m_pausing_succeeded C09 C02
run m_ctx_remove0 C06
run m_serialize_nocopy C05 C18
run m_finalize_keep_private C16
run m_ctx_no_private_check C16
run m_yaql_len_ge C16
run m_resume_ignores_paused C09 C03 C02
echo DONE >> $OUT
