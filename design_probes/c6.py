import logging
logging.disable(logging.CRITICAL)
import re
import stubs
from orquesta import conducting, events, statuses
from orquesta.specs import native as native_specs
from orquesta.expressions import base as expr_base
_prev = expr_base.evaluate
_CTX = re.compile(r"^<% ctx\(\)\.(\w+) %>$")
def ev2(statement, data=None):
    if isinstance(statement, str):
        m = _CTX.match(statement)
        if m:
            return data[m.group(1)]
    if isinstance(statement, dict):
        return {k: ev2(v, data) for k, v in statement.items()}
    return _prev(statement, data)
expr_base.evaluate = ev2
WF = """
version: 1.0
tasks:
  s:
    action: core.noop
    next:
      - publish:
          - x: <% result().v %>
        do: a, b
  a:
    action: core.noop
    next:
      - publish:
          - x: <% result().v %>
        do: j
  b:
    action: core.noop
    next:
      - do: j
  j:
    join: all
    action: core.echo
    input:
      message: <% ctx().x %>
"""
SPEC = native_specs.WorkflowSpec(WF)
def run(v0: int, v1: int, a_first: bool) -> int:
    """
    post: _ == v1
    """
    c = conducting.WorkflowConductor(SPEC)
    c.request_workflow_status(statuses.RUNNING)
    def start():
        out = c.get_next_tasks()
        for t in out:
            c.update_task_state(t["id"], t["route"], events.ActionExecutionEvent(statuses.RUNNING))
        return out
    start()
    c.update_task_state("s", 0, events.ActionExecutionEvent(statuses.SUCCEEDED, result={"v": v0}))
    start()
    order = ["a", "b"] if a_first else ["b", "a"]
    for t in order:
        c.update_task_state(t, 0, events.ActionExecutionEvent(statuses.SUCCEEDED, result={"v": v1}))
    nt = c.get_next_tasks()
    assert len(nt) == 1 and nt[0]["id"] == "j"
    return nt[0]["actions"][0]["input"]["message"]
run(1, 2, False)
