from nat import *
WF = """
version: 1.0
tasks:
  s:
    action: core.noop
    next:
      - do: a, b
  a:
    action: core.noop
    next:
      - do: j
  b:
    action: core.noop
    next:
      - when: <% succeeded() %>
        do: j
  j:
    join: all
    action: core.noop
"""
print("--- cancel while b running, b then canceled")
c, errs = mk(WF); start(c); done(c,"s"); start(c); done(c,"a")
c.request_workflow_status(statuses.CANCELING); print(c.get_workflow_status())
done(c,"b", st=statuses.CANCELED); print(c.get_workflow_status(), c.errors, start(c))
print("--- cancel while b running, b then succeeded")
c, errs = mk(WF); start(c); done(c,"s"); start(c); done(c,"a")
c.request_workflow_status(statuses.CANCELING); print(c.get_workflow_status())
done(c,"b"); print(c.get_workflow_status(), c.errors, start(c))
print("--- cancel while b running, b then failed")
c, errs = mk(WF); start(c); done(c,"s"); start(c); done(c,"a")
c.request_workflow_status(statuses.CANCELING); print(c.get_workflow_status())
done(c,"b", st=statuses.FAILED); print(c.get_workflow_status(), c.errors, start(c))
print("--- pause while b running, b then succeeded, resume")
c, errs = mk(WF); start(c); done(c,"s"); start(c); done(c,"a")
c.request_workflow_status(statuses.PAUSING); print(c.get_workflow_status())
done(c,"b"); print(c.get_workflow_status(), c.errors, start(c))
c.request_workflow_status(statuses.RESUMING); print(c.get_workflow_status(), start(c)); done(c,"j"); print(c.get_workflow_status())
print("--- pause while last task running; it finishes -> paused; resume -> ?")
c, errs = mk(WF); start(c); done(c,"s"); start(c); done(c,"a"); done(c,"b"); start(c)
c.request_workflow_status(statuses.PAUSING); done(c,"j"); print(c.get_workflow_status())
c.request_workflow_status(statuses.RESUMING); print(c.get_workflow_status(), start(c))
c.render_workflow_output(); print(c.get_workflow_status(), [ (e["id"], e.get("term")) for e in c.workflow_state.sequence])
