import logging
logging.disable(logging.CRITICAL)
from typing import Optional
from orquesta import conducting, constants, statuses as S
from orquesta.specs import native as native_specs

WC = conducting.WorkflowConductor

# ---- retry kernel: real _evaluate_task_retry, unbounded ints
class _C(object):
    pass
def retry_kernel(tally: int, count: int, st: int, has_when: bool, when_val: bool) -> bool:
    """
    pre: 0 <= st < 3
    post: not _ or (tally < count and ((["succeeded","failed","canceled"][st] == "failed" and not has_when) or (has_when and when_val)))
    """
    status = ["succeeded", "failed", "canceled"][st]
    entry = {"id": "t", "route": 0, "status": status, "retry": {"count": count, "tally": tally, "when": ("<% W %>" if has_when else None)}}
    import orquesta.conducting as cmod
    orig = cmod.expr_base.evaluate
    cmod.expr_base.evaluate = lambda stmt, ctx=None: when_val if stmt == "<% W %>" else stmt
    try:
        return WC._evaluate_task_retry(_C(), entry, {})
    finally:
        cmod.expr_base.evaluate = orig

# ---- with-items window kernel: real _evaluate_task_actions, unbounded concurrency
class _Spec(object):
    def has_items(self): return True
class _WS(object):
    def __init__(self, staged): self._s = staged
    def get_staged_task(self, task_id, route): return self._s
class _Cond(object):
    def __init__(self, staged): self.workflow_state = _WS(staged)
ST = ["null", "running", "succeeded", "failed", "paused", "canceled", "pausing"]
def window_kernel(k: int, has_k: bool, i0: int, i1: int, i2: int, i3: int):
    """
    pre: all(0 <= i < len(ST) for i in (i0, i1, i2, i3))
    post: _[0] == _[1]
    """
    sts = [ST[i0] if True else None for _ in (0,)]  # placeholder to keep CrossHair from constant folding
    sts = []
    for i in (i0, i1, i2, i3):
        v = ST[0]
        for j in range(len(ST)):
            if i == j: v = ST[j]
        sts.append(v)
    staged = {"id": "t", "route": 0, "items": [{"status": s} for s in sts]}
    task = {"id": "t", "route": 0, "spec": _Spec(), "actions": [{"item_id": n} for n in range(4)],
            "items_count": 4, "concurrency": (k if has_k else None)}
    out = WC._evaluate_task_actions(_Cond(staged), task)
    got = [a["item_id"] for a in out["actions"]]
    notrun = [n for n in range(4) if sts[n] == "null"]
    active = len([s for s in sts if s in S.ACTIVE_STATUSES])
    if has_k:
        kk = k if k > 0 else 1
        avail = kk - active
        exp = notrun[:avail] if avail > 0 else []
    else:
        exp = notrun
    return got, exp

# ---- barrier kernel: real get_inbound_criteria_status, unbounded N
class _G(object):
    def __init__(self, n, barrier): self.n = n; self.b = barrier
    def get_prev_transitions(self, task_id): return [("p%d" % i, "j", 0, {}) for i in range(self.n)]
    def get_barrier(self, task_id): return self.b
class _WS2(object):
    def __init__(self, busy): self.has_active_tasks = busy; self.has_staged_tasks = False
class _Cond2(object):
    def __init__(self, n, barrier, sat, busy):
        self.graph = _G(n, barrier); self.workflow_state = _WS2(busy); self._sat = sat
    def get_task_state_entry(self, task_id, route):
        v = self._sat[int(task_id[1:])]
        if v == 0: return None                       # predecessor has not run
        return {"next": {"j__t0": (v == 2)}}         # ran; transition satisfied or not
def barrier_kernel(n_all: bool, N: int, s0: int, s1: int, s2: int, busy: bool) -> str:
    """
    pre: all(0 <= s <= 2 for s in (s0, s1, s2))
    pre: n_all or N >= 1
    post: (_ == constants.INBOUND_CRITERIA_SATISFIED) == ([s0, s1, s2].count(2) >= (3 if n_all else N))
    """
    sat = []
    for s in (s0, s1, s2):
        v = 0
        if s == 1: v = 1
        if s == 2: v = 2
        sat.append(v)
    c = _Cond2(3, "*" if n_all else N, sat, busy)
    return WC.get_inbound_criteria_status(c, "j", 0)
