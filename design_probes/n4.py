from nat import *
WF = """
version: 1.0
tasks:
  s:
    action: core.noop
    next:
      - publish: x=1
        do: a, b
  a:
    action: core.noop
    next:
      - publish: x=2
        do: j
  b:
    action: core.noop
    next:
      - do: j
  j:
    join: all
    action: core.echo message=<% ctx().x %>
output:
  - x: <% ctx().x %>
"""
for order in (["a","b"],["b","a"]):
    c, errs = mk(WF); start(c); done(c,"s"); start(c)
    for t in order: done(c,t)
    nt = c.get_next_tasks()
    print(order, "inspect", errs, "j sees x =", nt[0]["ctx"]["x"], nt[0]["actions"], c.workflow_state.staged[0]["ctxs"])
