"""Scouting probe 11: action-level pending / paused (contract A5) in choice-point mode."""
import logging
logging.disable(logging.CRITICAL)
from crosshair.tracers import NoTracing
from scout import cb, ci, KnownFinding
from orquesta import conducting, events, statuses as S
from orquesta.specs import native as native_specs
WF = """
version: 1.0
tasks:
  s:
    action: core.noop
    next:
      - when: <% succeeded() %>
        do: a, b
  a:
    action: core.ask
    next:
      - when: <% succeeded() %>
        do: d
  b:
    action: core.noop
    next:
      - when: <% succeeded() %>
        do: c
  c:
    action: core.noop
  d:
    action: core.noop
"""
SPEC = native_specs.WorkflowSpec(WF)
STEPS = 8
RESTING = (S.SUCCEEDED, S.FAILED, S.CANCELED, S.PAUSED)
def drive(r, o, h, k, p):
    """h[step]: the reporting action holds (pending if no pause requested, paused if the workflow is pausing) instead of completing"""
    c = conducting.WorkflowConductor(SPEC); c.request_workflow_status(S.RUNNING)
    inflight = []; held = []; log = []; step = 0; held_once = set()
    ctl = cb(k); pos = ci(p, STEPS) if ctl else None; pause_pending = False
    def offers():
        nt = c.get_next_tasks(); st = c.get_workflow_status()
        if st in (S.PAUSING, S.PAUSED): assert not nt, "C09 offer while %s %s" % (st, log)
        for t in nt:
            c.update_task_state(t["id"], t["route"], events.ActionExecutionEvent(S.RUNNING)); inflight.append(t["id"]); log.append("+" + t["id"])
    def check():
        st = c.get_workflow_status()
        if st in (S.PAUSED, S.CANCELED, S.SUCCEEDED): assert not inflight, "C02 %s with in-flight %s %s" % (st, inflight, log)
        if st == S.PAUSING: assert inflight, "C02 pausing with nothing in flight %s" % log
        if st == S.SUCCEEDED:
            bad = [(e["id"], e.get("status")) for e in c.workflow_state.sequence if e.get("status") not in S.COMPLETED_STATUSES]
            assert not bad and not held, "C02 succeeded with unfinished task executions %s held=%s %s" % (bad, held, log)
        if pause_pending and not inflight and st not in (S.FAILED, S.CANCELED):
            assert st == S.PAUSED, "C09 not paused at the last report: %s %s" % (st, log)
    offers(); check()
    while step < STEPS:
        if ctl and pos == step and not pause_pending and c.get_workflow_status() in (S.RUNNING, S.RESUMING):
            c.request_workflow_status(S.PAUSING); pause_pending = True; log.append("PAUSE"); check(); offers()
        if not inflight:
            st = c.get_workflow_status()
            if st == S.PAUSED:
                assert pause_pending or held, "C03 paused without a pause request or held task %s" % log
                c.request_workflow_status(S.RESUMING); pause_pending = False; log.append("RESUME")
                for tid, kind in list(held):      # A5: the provider resumes the actions it holds paused
                    if kind == "paused":
                        held.remove((tid, kind))
                        c.update_task_state(tid, 0, events.ActionExecutionEvent(S.RUNNING)); log.append("~%s:running" % tid)
                        inflight.append(tid)
                offers(); check()
                if not inflight and held:          # only a pending action is left: its answer arrives now
                    tid, kind = held.pop(0)
                    ok = cb(o[step]); step += 1
                    c.update_task_state(tid, 0, events.ActionExecutionEvent(S.SUCCEEDED if ok else S.FAILED)); log.append("-%s:%s(answer)" % (tid, "ok" if ok else "fail"))
                    check(); offers(); check()
                if inflight or held: continue
            st = c.get_workflow_status()
            assert st in RESTING, "C03 quiescent in %s %s" % (st, log)
            assert not (st == S.PAUSED and not held), "C03 still paused after resume with nothing held %s" % log
            break
        idx = ci(r[step], len(inflight)) if len(inflight) > 1 else 0
        tid = inflight.pop(idx)
        hold = tid not in held_once and tid in ("a", "b") and cb(h[step])
        if hold:
            held_once.add(tid)
            if c.get_workflow_status() == S.PAUSING:
                c.update_task_state(tid, 0, events.ActionExecutionEvent(S.PAUSED)); held.append((tid, "paused")); log.append("~%s:paused" % tid)
            else:
                c.update_task_state(tid, 0, events.ActionExecutionEvent(S.PENDING)); held.append((tid, "pending")); log.append("~%s:pending" % tid)
        else:
            ok = cb(o[step])
            c.update_task_state(tid, 0, events.ActionExecutionEvent(S.SUCCEEDED if ok else S.FAILED)); log.append("-%s:%s" % (tid, "ok" if ok else "fail"))
        step += 1
        check(); offers(); check()
    return c.get_workflow_status()
def scout_a5(r0: int, r1: int, r2: int, r3: int, r4: int, r5: int, r6: int, r7: int, o0: bool, o1: bool, o2: bool, o3: bool, o4: bool, o5: bool, o6: bool, o7: bool,
             h0: bool, h1: bool, h2: bool, h3: bool, h4: bool, h5: bool, h6: bool, h7: bool, k: bool, p: int) -> str:
    """
    pre: all(0 <= x < 3 for x in (r0, r1, r2, r3, r4, r5, r6, r7)) and 0 <= p < STEPS
    post: True
    """
    with NoTracing():
        return drive([r0, r1, r2, r3, r4, r5, r6, r7], [o0, o1, o2, o3, o4, o5, o6, o7], [h0, h1, h2, h3, h4, h5, h6, h7], k, p)
print(drive([0] * 8, [True] * 8, [False] * 8, False, 0), drive([0] * 8, [True] * 8, [False, True] + [False] * 6, False, 0), drive([0] * 8, [True] * 8, [False, True, True] + [False] * 5, True, 1))
