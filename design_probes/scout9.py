"""Scouting probe 9 (native): does inspect() report an unassigned variable at every position x documented reference form?"""
import logging, copy
logging.disable(logging.CRITICAL)
from orquesta.specs import native as native_specs
BASE = {
 "version": 1.0,
 "input": ["a", {"b": "<% ctx().a %>"}],
 "vars": [{"c": "<% ctx().a %>"}],
 "tasks": {
   "t1": {"delay": "<% ctx().a %>", "action": "core.echo", "input": {"m": "<% ctx().a %>"},
          "retry": {"when": "<% ctx().a %>", "count": "<% ctx().a %>", "delay": "<% ctx().a %>"},
          "next": [{"when": "<% ctx().a %>", "publish": [{"p": "<% ctx().a %>"}], "do": ["t2"]}]},
   "t2": {"with": {"items": "<% ctx().a %>", "concurrency": "<% ctx().a %>"}, "action": "<% ctx().a %>", "input": {"m": "<% item() %>"}},
 },
 "output": [{"o": "<% ctx().p %>"}],
}
assert native_specs.WorkflowSpec(copy.deepcopy(BASE)).inspect() == {}, native_specs.WorkflowSpec(copy.deepcopy(BASE)).inspect()
FORMS = ["<% ctx().zz %>", "<% ctx(zz) %>", "<% ctx('zz') %>", '<% ctx("zz") %>', "<% ctx().zz.k %>", "<% ctx().get(zz) %>", "<% ctx()[zz] %>",
         "{{ ctx().zz }}", "{{ ctx('zz') }}", '{{ ctx("zz") }}', "{{ ctx().zz.k }}", "{{ ctx()['zz'] }}", "<% ctx().a + ctx().zz %>", "pre <% ctx().zz %> post"]
def sites(d, path=()):
    if isinstance(d, dict):
        for k, v in d.items(): yield from sites(v, path + (k,))
    elif isinstance(d, list):
        for i, v in enumerate(d): yield from sites(v, path + (i,))
    elif isinstance(d, str) and ("<%" in d) and "item()" not in d:
        yield path
def setp(d, path, val):
    for k in path[:-1]: d = d[k]
    d[path[-1]] = val
miss = {}
for path in sites(BASE):
    for f in FORMS:
        d = copy.deepcopy(BASE); setp(d, path, f)
        r = native_specs.WorkflowSpec(d).inspect()
        ok = any("zz" in e.get("message", "") for e in r.get("context", []))
        if not ok:
            miss.setdefault(f, []).append(".".join(map(str, path)))
for f, ps in miss.items(): print("NOT REPORTED", f, "at", len(ps), "sites e.g.", ps[:3])
print("sites", len(list(sites(BASE))), "forms", len(FORMS))
