from nat import *
# join: 2 of 3, third branch arrives after join started
WF = """
version: 1.0
tasks:
  s:
    action: core.noop
    next:
      - do: a, b, c
  a:
    action: core.noop
    next:
      - do: j
  b:
    action: core.noop
    next:
      - do: j
  c:
    action: core.noop
    next:
      - do: j
  j:
    join: 2
    action: core.noop
"""
c, errs = mk(WF); print("inspect", errs)
print(start(c)); done(c, "s"); print(start(c))
done(c, "a"); done(c, "b"); print("offer", start(c))   # j starts
done(c, "c"); print("after c:", c.get_workflow_status(), "offer", start(c))
done(c, "j"); print(c.get_workflow_status(), start(c))
try:
    done(c, "j"); print(c.get_workflow_status())
except Exception as e: print("EXC", type(e), e)
print(seq(c)); print(c.workflow_state.staged); print(c.errors)
