"""Environment stubs: run concrete-only glue untraced; keep conducting/machines traced."""
import functools, re
from crosshair.tracers import NoTracing
from crosshair import realize, deep_realize
from orquesta import conducting, graphing, machines, statuses
from orquesta.specs import base as spec_base
from orquesta.specs.native.v1 import models
from orquesta.expressions import base as expr_base
from orquesta.utils import jsonify as json_util
from orquesta.expressions.functions import workflow as wf_funcs

def untraced(fn):
    @functools.wraps(fn)
    def w(*a, **k):
        with NoTracing():
            return fn(*a, **k)
    return w

for name in ("in_cycle","get_next_transitions","get_prev_transitions","get_task","has_task",
             "get_barriers","get_barrier","has_barrier","get_task_retry_spec","task_has_retry","roots"):
    attr = graphing.WorkflowGraph.__dict__[name]
    if isinstance(attr, property):
        setattr(graphing.WorkflowGraph, name, property(untraced(attr.fget)))
    else:
        setattr(graphing.WorkflowGraph, name, untraced(attr))
spec_base.Spec.copy = untraced(spec_base.Spec.copy)
for name in ("get_task","is_split_task","is_join_task","in_cycle","get_next_tasks","get_prev_tasks","get_start_tasks"):
    setattr(models.TaskMappingSpec, name, untraced(getattr(models.TaskMappingSpec, name)))

_SYM = (int, str, bool, float, type(None))
def struct_copy(v):
    if isinstance(v, dict):
        return {k: struct_copy(x) for k, x in v.items()}
    if isinstance(v, (list, tuple)):
        return [struct_copy(x) for x in v]
    return v
json_util.deepcopy = struct_copy

_real_eval = expr_base.evaluate
_RES = re.compile(r"^<% result\(\)\.(\w+) %>$")
def mini_eval(statement, data=None):
    if isinstance(statement, dict):
        return {mini_eval(k, data): mini_eval(v, data) for k, v in statement.items()}
    if isinstance(statement, list):
        return [mini_eval(i, data) for i in statement]
    if isinstance(statement, str):
        if statement == "<% succeeded() %>":
            return wf_funcs.succeeded_(data)
        if statement == "<% failed() %>":
            return wf_funcs.failed_(data)
        m = _RES.match(statement)
        if m:
            return data["__current_task"]["result"][m.group(1)]
        if "<%" in statement or "{{" in statement:
            with NoTracing():
                return _real_eval(statement, deep_realize(data))
    return statement
expr_base.evaluate = mini_eval
