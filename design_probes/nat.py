import logging; logging.disable(logging.CRITICAL)
from orquesta import conducting, events, statuses, requests
from orquesta.specs import native as native_specs
def mk(wf, inputs=None):
    spec = native_specs.WorkflowSpec(wf)
    errs = spec.inspect()
    c = conducting.WorkflowConductor(spec, inputs=inputs)
    c.request_workflow_status(statuses.RUNNING)
    return c, errs
def start(c):
    out=[]
    for t in c.get_next_tasks():
        for a in t["actions"] or [None]:
            pass
        c.update_task_state(t["id"], t["route"], events.ActionExecutionEvent(statuses.RUNNING))
        out.append((t["id"], t["route"]))
    return out
def done(c, tid, r=0, st=statuses.SUCCEEDED, result=None):
    c.update_task_state(tid, r, events.ActionExecutionEvent(st, result=result))
def seq(c): return [(e["id"], e["route"], e.get("status")) for e in c.workflow_state.sequence]
