"""Scouting probe (not framework): choice-point environment + lifecycle monitors on a few definitions."""
import logging, os
logging.disable(logging.CRITICAL)
from crosshair.tracers import NoTracing, ResumedTracing, is_tracing
from orquesta import conducting, events, statuses as S
from orquesta.specs import native as native_specs

def cb(x):
    if not is_tracing():
        with ResumedTracing():
            return True if x else False
    return True if x else False
def ci(x, n):
    def f():
        for i in range(n - 1):
            if x == i:
                return i
        return n - 1
    if not is_tracing():
        with ResumedTracing():
            return f()
    return f()

DEFS = {
"D05": """
version: 1.0
tasks:
  s:
    action: core.noop
    next:
      - do: a, b, c
  a:
    action: core.noop
    next:
      - when: <% succeeded() %>
        do: j
  b:
    action: core.noop
    next:
      - when: <% succeeded() %>
        do: j
  c:
    action: core.noop
    next:
      - when: <% succeeded() %>
        do: j
  j:
    join: 3
    action: core.noop
""",
"D12": """
version: 1.0
tasks:
  s:
    action: core.noop
    next:
      - do: a, b
  a:
    action: core.noop
    next:
      - when: <% succeeded() %>
        do: j
      - when: <% failed() %>
        do: r
  b:
    action: core.noop
    next:
      - when: <% succeeded() %>
        do: j
  r:
    action: core.noop
  j:
    join: all
    action: core.noop
    next:
      - do: z
  z:
    action: core.noop
""",
"D02": """
version: 1.0
tasks:
  s:
    action: core.noop
    next:
      - when: <% succeeded() %>
        do: a, b
  a:
    action: core.noop
  b:
    action: core.noop
    next:
      - when: <% succeeded() %>
        do: c
  c:
    action: core.noop
""",
"D04": """
version: 1.0
tasks:
  s:
    action: core.noop
    next:
      - do: a, b
  a:
    action: core.noop
    next:
      - do: j
  b:
    action: core.noop
    next:
      - when: <% succeeded() %>
        do: j
  j:
    join: all
    action: core.noop
""",
"D07": """
version: 1.0
tasks:
  s:
    action: core.noop
    next:
      - do: a, x
  a:
    action: core.noop
    next:
      - when: <% failed() %>
        do: cleanup, fail
      - when: <% succeeded() %>
        do: b
  cleanup:
    action: core.noop
  x:
    action: core.noop
  b:
    action: core.noop
""",
"D08": """
version: 1.0
tasks:
  a:
    action: core.noop
    next:
      - when: <% failed() %>
        do: noop
      - when: <% succeeded() %>
        publish: y=1
        do: b, c
  b:
    action: core.noop
    next:
      - when: <% failed() %>
        publish: z=1
  c:
    action: core.noop
""",
}
SPECS = {k: native_specs.WorkflowSpec(v) for k, v in DEFS.items()}
STEPS = 5
RESTING = (S.SUCCEEDED, S.FAILED, S.CANCELED, S.PAUSED)

class KnownFinding(Exception):
    pass
def drive(name, r, o, k, p):
    try:
        return drive_(name, r, o, k, p)
    except KnownFinding as e:
        return "known:" + str(e)
def drive_(name, r, o, k, p):
    """r: reporter choices, o: outcome choices, k: control kind 0 none/1 pause/2 cancel, p: position"""
    spec = SPECS[name]
    c = conducting.WorkflowConductor(spec)
    c.request_workflow_status(S.RUNNING)
    inflight = []; step = 0; ctl = ci(k, 3); pos = None
    paused_req = False; cancel_req = False; terminal = None; log = []
    def offers():
        nt = c.get_next_tasks()
        st = c.get_workflow_status()
        if st in (S.PAUSING, S.PAUSED):
            assert not nt, "C09 offer while %s: %s %s" % (st, [t["id"] for t in nt], log)
        if cancel_req:
            assert not nt, "C10 offer after cancel: %s %s" % ([t["id"] for t in nt], log)
        if terminal is not None:
            rof = [s["id"] for s in c.workflow_state.staged if s.get("run_on_fail")]
            assert all(t["id"] in rof for t in nt), "C04 offer after terminal %s: %s %s" % (terminal, [t["id"] for t in nt], log)
        for t in nt:
            assert (t["id"], t["route"]) not in inflight, "C01/C07 offered while in flight: %s %s" % (t["id"], log)
            c.update_task_state(t["id"], t["route"], events.ActionExecutionEvent(S.RUNNING))
            inflight.append((t["id"], t["route"])); log.append("+" + t["id"])
    hist = {"prev": None}
    def append_only():
        cur = c.serialize()["state"]
        prev = hist["prev"]; hist["prev"] = cur
        if prev is None: return
        assert cur["contexts"][:len(prev["contexts"])] == prev["contexts"], "C18 contexts not append-only %s" % log
        assert cur["routes"][:len(prev["routes"])] == prev["routes"], "C18 routes not append-only %s" % log
        assert len(cur["sequence"]) >= len(prev["sequence"]), "C18 sequence shrank %s" % log
        for i, old in enumerate(prev["sequence"]):
            new = cur["sequence"][i]
            assert (new["id"], new["route"]) == (old["id"], old["route"]), "C18 record identity changed %s" % log
            if "status" in old:
                assert new["ctxs"]["in"] == old["ctxs"]["in"] and new["prev"] == old["prev"], "C18 started record %s changed what it saw: %s -> %s %s" % (old["id"], old, new, log)
            if old.get("status") in S.COMPLETED_STATUSES and old["next"]:
                assert new["status"] == old["status"] and new["next"] == old["next"], "C18 decided record changed %s -> %s %s" % (old, new, log)
    def pure_query():
        a = c.get_next_tasks(); s1 = c.serialize(); b = c.get_next_tasks(); s2 = c.serialize()
        assert [(t["id"], t["route"], t["actions"]) for t in a] == [(t["id"], t["route"], t["actions"]) for t in b], "C19 get_next_tasks differs %s" % log
        assert s1 == s2, "C19 get_next_tasks changed state %s" % log
    def check():
        nonlocal terminal
        append_only(); pure_query()
        st = c.get_workflow_status()
        if st in (S.PAUSED, S.CANCELED, S.SUCCEEDED):
            assert not inflight, "C02 status %s with in-flight %s %s" % (st, inflight, log)
        if st in (S.PAUSING, S.CANCELING):
            assert inflight, "C02 status %s with nothing in flight %s" % (st, log)
        if terminal is not None:
            assert st == terminal, "C04 terminal %s changed to %s %s" % (terminal, st, log)
        elif st in (S.SUCCEEDED, S.FAILED, S.CANCELED):
            terminal = st
        if cancel_req:
            f2 = st == S.FAILED and any("UnreachableJoinError" in e["message"] for e in c.errors)
            if f2:
                raise KnownFinding("F2")
            assert st in (S.CANCELING, S.CANCELED), "C10 status %s after cancel %s" % (st, log)
    offers(); check()
    while step < STEPS:
        if ctl and pos is None:
            pos = ci(p, STEPS)
        if ctl and pos == step and terminal is None and not paused_req and not cancel_req:
            if ctl == 1:
                c.request_workflow_status(S.PAUSING); paused_req = True; log.append("PAUSE")
            else:
                c.request_workflow_status(S.CANCELING); cancel_req = True; log.append("CANCEL")
            check(); offers()
        if not inflight:
            st = c.get_workflow_status()
            if paused_req and st == S.PAUSED:
                c.request_workflow_status(S.RESUMING); paused_req = False; log.append("RESUME")
                offers(); check()
                if not inflight:
                    assert c.get_workflow_status() in RESTING, "C03 stuck after resume in %s %s" % (c.get_workflow_status(), log)
                    break
                continue
            assert st in RESTING, "C03 quiescent in %s %s" % (st, log)
            if st == S.PAUSED:
                assert paused_req, "C03 paused without request %s" % log
            break
        idx = ci(r[step], len(inflight)) if len(inflight) > 1 else 0
        tid, rt = inflight.pop(idx)
        ok = cb(o[step])
        c.update_task_state(tid, rt, events.ActionExecutionEvent(S.SUCCEEDED if ok else S.FAILED))
        log.append("-%s:%s" % (tid, "ok" if ok else "fail"))
        step += 1
        check(); offers(); check()
    return c.get_workflow_status()

SIG = "r0: int, r1: int, r2: int, r3: int, r4: int, o0: bool, o1: bool, o2: bool, o3: bool, o4: bool, k: int, p: int"
PRE = "pre: all(0 <= x < 3 for x in (r0, r1, r2, r3, r4)) and 0 <= k < 3 and 0 <= p < STEPS"
src = []
for name in DEFS:
    src.append('def scout_%s(%s) -> str:\n    """\n    %s\n    post: True\n    """\n    with NoTracing():\n        return drive("%s", [r0, r1, r2, r3, r4], [o0, o1, o2, o3, o4], k, p)\n' % (name, SIG, PRE, name))
exec("\n".join(src))
for name in DEFS:   # warm-up
    drive(name, [0]*5, [True]*5, 0, 0)
if __name__ == "__main__":
    open("/tmp/pa/scout_gen.py", "w").write("from scout import *\n" + "\n".join(src))
