"""Scouting probe 2: with-items under pause/cancel/resume, rejected requests, crash/restore twin."""
import logging, json
logging.disable(logging.CRITICAL)
from crosshair.tracers import NoTracing
from scout import cb, ci, KnownFinding
from orquesta import conducting, events, statuses as S
from orquesta.specs import native as native_specs

WF = """
version: 1.0
input:
  - xs
tasks:
  w:
    with:
      items: <% ctx().xs %>
      concurrency: 2
    action: core.echo message=<% item() %>
    next:
      - when: <% succeeded() %>
        publish: out=<% result() %>
        do: z
  z:
    action: core.noop
output:
  - out: <% ctx().out %>
"""
SPEC = native_specs.WorkflowSpec(WF)
N = 3; STEPS = 5
REQS = [S.RUNNING, S.PAUSING, S.PAUSED, S.RESUMING, S.CANCELING, S.CANCELED]

def snap(c):
    return json.dumps(c.serialize()["state"], sort_keys=True)

def drive(r, o, k, p, q, rq, crash):
    c = conducting.WorkflowConductor(SPEC, inputs={"xs": [10, 11, 12]})
    c.request_workflow_status(S.RUNNING)
    twin = None
    inflight = []; offered = []; acc = [None] * N; results = {}
    ctl = ci(k, 3); pos = ci(p, STEPS) if ctl else None
    qpos = ci(q, STEPS + 1)
    paused_req = cancel_req = False; log = []; step = 0
    def offers():
        nt = c.get_next_tasks()
        st = c.get_workflow_status()
        again = c.get_next_tasks()
        assert [(t["id"], [a.get("item_id") for a in t["actions"]]) for t in nt] == [(t["id"], [a.get("item_id") for a in t["actions"]]) for t in again], "C19 get_next_tasks not idempotent %s" % log
        for t in nt:
            if st in (S.PAUSING, S.PAUSED): assert False, "C09/C12 offer while %s %s" % (st, log)
            if cancel_req: assert False, "C10/C12 offer after cancel %s" % log
            if t["id"] == "w":
                for a in t["actions"]:
                    i = a["item_id"]
                    assert i not in offered, "C12 item %d offered twice %s" % (i, log)
                    assert not offered or i == max(offered) + 1, "C12 item %d out of order %s" % (i, log)
                    offered.append(i)
                    c.update_task_state("w", 0, events.TaskItemActionExecutionEvent(i, S.RUNNING))
                    inflight.append(("w", i)); log.append("+w[%d]" % i)
            else:
                c.update_task_state(t["id"], t["route"], events.ActionExecutionEvent(S.RUNNING))
                inflight.append((t["id"], None)); log.append("+" + t["id"])
        assert len([x for x in inflight if x[0] == "w"]) <= 2, "C12 window exceeded %s" % log
    def check():
        st = c.get_workflow_status()
        if st in (S.PAUSED, S.CANCELED, S.SUCCEEDED):
            assert not inflight, "C02 %s with in-flight %s %s" % (st, inflight, log)
        if st in (S.PAUSING, S.CANCELING):
            assert inflight, "C02 %s with nothing in flight %s" % (st, log)
        if cancel_req:
            assert st in (S.CANCELING, S.CANCELED), "C10 status %s after cancel %s" % (st, log)
        e = c.get_task_state_entry("w", 0)
        if e and e.get("status") in S.COMPLETED_STATUSES:
            assert not [x for x in inflight if x[0] == "w"], "C12 task %s while items in flight %s" % (e.get("status"), log)
    def maybe_request():
        # C04: a request that raises must leave the persisted state untouched
        req = REQS[ci(rq, len(REQS))]
        before = snap(c)
        try:
            c.request_workflow_status(req)
        except Exception as ex:
            assert snap(c) == before, "C04 rejected %s (%s) changed state %s" % (req, type(ex).__name__, log)
            return
        raise KnownFinding("accepted-request")   # accepted: out of this scout's scope, stop the path
    offers(); check()
    while step < STEPS:
        if qpos == step:
            maybe_request()
        if ctl and pos == step and not paused_req and not cancel_req and c.get_workflow_status() in (S.RUNNING, S.RESUMING):
            if ctl == 1:
                c.request_workflow_status(S.PAUSING); paused_req = True; log.append("PAUSE")
            else:
                c.request_workflow_status(S.CANCELING); cancel_req = True; log.append("CANCEL")
            check(); offers()
        if cb(crash[step]):
            s1 = c.serialize()
            c = conducting.WorkflowConductor.deserialize(s1)
            assert c.serialize() == s1, "C05 serialize not a fixpoint %s" % log
            log.append("CRASH")
        if not inflight:
            st = c.get_workflow_status()
            if paused_req and st == S.PAUSED:
                c.request_workflow_status(S.RESUMING); paused_req = False; log.append("RESUME")
                offers(); check()
                if inflight:
                    continue
            assert c.get_workflow_status() in (S.SUCCEEDED, S.FAILED, S.CANCELED, S.PAUSED), "C03 quiescent in %s %s" % (c.get_workflow_status(), log)
            break
        idx = ci(r[step], len(inflight)) if len(inflight) > 1 else 0
        tid, i = inflight.pop(idx)
        ok = cb(o[step])
        if tid == "w":
            acc[i] = 100 + i
            c.update_task_state("w", 0, events.TaskItemActionExecutionEvent(i, S.SUCCEEDED if ok else S.FAILED, result=100 + i, accumulated_result=list(acc)))
            results[i] = ok; log.append("-w[%d]:%s" % (i, "ok" if ok else "fail"))
        else:
            c.update_task_state(tid, 0, events.ActionExecutionEvent(S.SUCCEEDED if ok else S.FAILED)); log.append("-%s:%s" % (tid, "ok" if ok else "fail"))
        step += 1
        check(); offers(); check()
    st = c.get_workflow_status()
    if st == S.SUCCEEDED:
        assert sorted(offered) == list(range(N)), "C12 succeeded without all items %s" % log
        c.render_workflow_output()
        assert c.get_workflow_output() == {"out": [100, 101, 102]}, "C12 result order %s %s" % (c.get_workflow_output(), log)
    return st

def drive_safe(*a):
    try:
        return drive(*a)
    except KnownFinding as e:
        return "known:" + str(e)

def scout_items(r0: int, r1: int, r2: int, r3: int, r4: int, o0: bool, o1: bool, o2: bool, o3: bool, o4: bool, k: int, p: int) -> str:
    """
    pre: all(0 <= x < 3 for x in (r0, r1, r2, r3, r4)) and 0 <= k < 3 and 0 <= p < STEPS
    post: True
    """
    with NoTracing():
        return drive_safe([r0, r1, r2, r3, r4], [o0, o1, o2, o3, o4], k, p, STEPS, 0, [False] * STEPS)

def scout_items_crash(r0: int, r1: int, r2: int, r3: int, r4: int, o0: bool, o1: bool, o2: bool, k: int, p: int, c0: bool, c1: bool, c2: bool, c3: bool, c4: bool) -> str:
    """
    pre: all(0 <= x < 3 for x in (r0, r1, r2, r3, r4)) and 0 <= k < 3 and 0 <= p < STEPS
    post: True
    """
    with NoTracing():
        return drive_safe([r0, r1, r2, r3, r4], [o0, o1, o2, True, True], k, p, STEPS, 0, [c0, c1, c2, c3, c4])

def scout_items_reject(r0: int, r1: int, r2: int, r3: int, r4: int, o0: bool, o1: bool, o2: bool, k: int, p: int, q: int, rq: int) -> str:
    """
    pre: all(0 <= x < 3 for x in (r0, r1, r2, r3, r4)) and 0 <= k < 3 and 0 <= p < STEPS and 0 <= q < STEPS and 0 <= rq < len(REQS)
    post: True
    """
    with NoTracing():
        return drive_safe([r0, r1, r2, r3, r4], [o0, o1, o2, True, True], k, p, q, rq, [False] * STEPS)

drive_safe([0] * 5, [True] * 5, 0, 0, STEPS, 0, [False] * 5)
