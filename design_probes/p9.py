import logging
logging.disable(logging.CRITICAL)
from crosshair.tracers import NoTracing, ResumedTracing, is_tracing
from orquesta.specs import native as native_specs
from orquesta.specs import base as spec_base
from orquesta.specs.native.v1 import models
from orquesta.composers import native as comp
from orquesta import conducting

CH = {"src": [], "i": 0}
class PermSet(set):
    """set whose iteration order is chosen by symbolic rotation amounts (models PYTHONHASHSEED)."""
    def __iter__(self):
        items = sorted(set.__iter__(self), key=repr)
        n = len(items)
        if n > 1 and CH["i"] < len(CH["src"]):
            r = CH["src"][CH["i"]]; CH["i"] += 1
            k = 0
            if is_tracing():
                for j in range(n):
                    if r == j: k = j
            else:
                with ResumedTracing():
                    for j in range(n):
                        if r == j: k = j
            items = items[k:] + items[:k]
        return iter(items)
    def __or__(self, o): return PermSet(set.__or__(self, o))
    def __sub__(self, o): return PermSet(set.__sub__(self, o))
for mod in (spec_base, models, comp, conducting):
    mod.set = PermSet

WF = """
version: 1.0
input:
  - a
  - b
vars:
  - c: <% ctx().a %>
tasks:
  t1:
    action: core.echo message=<% ctx().zz %>
    next:
      - publish: d=<% ctx().b %> e=<% ctx().yy %>
        do: t2, t3
  t2:
    action: core.noop
    next:
      - do: t4
  t3:
    action: core.noop
    next:
      - do: t4
  t4:
    join: all
    action: core.echo message=<% ctx().d %><% ctx().ww %>
"""
SPEC = native_specs.WorkflowSpec(WF)
def canon():
    CH["src"] = []; CH["i"] = 0
    return SPEC.inspect(), comp.WorkflowComposer.compose(SPEC).serialize()
with NoTracing():
    pass
BASE = canon()

def det(r0: int, r1: int, r2: int) -> bool:
    """
    pre: 0 <= r0 < 3 and 0 <= r1 < 3 and 0 <= r2 < 3
    post: _
    """
    CH["src"] = [r0, r1, r2]; CH["i"] = 0
    res = (SPEC.inspect(), comp.WorkflowComposer.compose(SPEC).serialize())
    return res == BASE

def det2(r0: int, r1: int, r2: int, r3: int) -> bool:
    """
    pre: 0 <= r0 < 3 and 0 <= r1 < 3 and 0 <= r2 < 3 and 0 <= r3 < 3
    post: _
    """
    CH["src"] = [r0, r1, r2, r3]; CH["i"] = 0
    with NoTracing():
        res = (SPEC.inspect(), comp.WorkflowComposer.compose(SPEC).serialize())
        return res == BASE
