from nat import *
WF = """
version: 1.0
tasks:
  a:
    action: core.noop
    retry:
      when: <% result().foo > 1 %>
      count: 2
    next:
      - do: b
  b:
    action: core.noop
"""
c, errs = mk(WF); print("inspect", errs)
print(start(c))
try:
    done(c, "a", result={"bar": 1}); print(c.get_workflow_status(), c.errors)
except Exception as e: print("EXC escaped:", type(e).__name__, e)
print(c.get_workflow_status(), seq(c), c.workflow_state.staged)
WF2 = """
version: 1.0
input:
  - n
tasks:
  a:
    action: core.noop
    next:
      - do: b
  b:
    action: core.noop
    retry:
      count: <% ctx().n.x %>
"""
c, errs = mk(WF2, {"n": 1}); print("inspect", errs)
print(start(c)); done(c,"a")
try:
    print(start(c), c.get_workflow_status(), c.errors)
except Exception as e: print("EXC escaped:", type(e).__name__, e)
print(c.get_workflow_status(), seq(c), c.workflow_state.staged)
