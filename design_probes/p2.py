import logging
logging.disable(logging.CRITICAL)
from typing import List
import stubs
from orquesta import conducting, events, statuses
from orquesta.specs import native as native_specs

WF = """
version: 1.0
tasks:
  t1:
    action: core.noop
    next:
      - when: <% result().a %>
        do: t2
      - when: <% result().b %>
        do: t3
  t2:
    action: core.noop
    next:
      - when: <% result().a %>
        do: t4
  t3:
    action: core.noop
    next:
      - when: <% result().a %>
        do: t4
  t4:
    join: all
    action: core.noop
"""
SPEC = native_specs.WorkflowSpec(WF)
N = 4
def run(sched: List[int], ok: List[bool], ra: List[bool], rb: List[bool]) -> str:
    """
    pre: len(sched) == N and len(ok) == N and len(ra) == N and len(rb) == N
    pre: all(0 <= s < 2 for s in sched)
    post: _ in ("succeeded", "failed")
    """
    c = conducting.WorkflowConductor(SPEC)
    c.request_workflow_status(statuses.RUNNING)
    inflight = []
    step = 0
    while True:
        for t in c.get_next_tasks():
            c.update_task_state(t["id"], t["route"], events.ActionExecutionEvent(statuses.RUNNING))
            inflight.append((t["id"], t["route"]))
        if not inflight or step >= N:
            break
        k = sched[step]
        idx = 1 if (k == 1 and len(inflight) > 1) else 0
        tid, r = inflight.pop(idx)
        st = statuses.SUCCEEDED if ok[step] else statuses.FAILED
        c.update_task_state(tid, r, events.ActionExecutionEvent(st, result={"a": ra[step], "b": rb[step]}))
        step += 1
    s = c.get_workflow_status()
    assert not (s == "running" and not inflight)
    return s

run([0]*N,[True]*N,[True]*N,[True]*N)
