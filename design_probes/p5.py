import logging
logging.disable(logging.CRITICAL)
from orquesta import machines, events, statuses

WF_ST = list(machines.WORKFLOW_STATE_MACHINE_DATA.keys())
TK_ST = [s for s in statuses.ALL_STATUSES if ("task_%s" % s) in events.TASK_EXECUTION_EVENTS]

class AbsState(object):
    """Abstract workflow state: the real machine only looks at these observers."""
    def __init__(self, status, act, pausing, paused, canceling, canceled, staged, nxt, barrier_nxt, unreachable):
        self.status = status
        self.has_active_tasks = act
        self.has_pausing_tasks = pausing
        self.has_paused_tasks = paused
        self.has_canceling_tasks = canceling
        self.has_canceled_tasks = canceled
        self.has_staged_tasks = staged
        self._nxt = nxt; self._bnxt = barrier_nxt; self._unr = unreachable
        self.conductor = self
        self.logged = 0
    def has_next_tasks(self, task_id=None, route=None): return self._nxt
    def has_barrier_next(self, task_id=None, route=None): return self._bnxt
    def get_unreachable_barriers(self): return [{"id": "j", "route": 0}] if self._unr else []
    def log_error(self, e, task_id=None, route=None): self.logged += 1

def pick(lst, i):
    for k in range(len(lst)):
        if i == k:
            return lst[k]
    return lst[0]

def step(ws: int, ts: int, act: bool, pausing: bool, paused: bool, canceling: bool, canceled: bool,
         staged: bool, nxt: bool, bnxt: bool, unr: bool) -> str:
    """
    pre: 0 <= ws < len(WF_ST) and 0 <= ts < len(TK_ST)
    post: implies(_ == "succeeded" and __old__.ws != WF_ST.index("succeeded"), not act and not staged and not nxt and not pausing and not paused and not canceling and not canceled and not unr)
    """
    st = AbsState(pick(WF_ST, ws), act, pausing, paused, canceling, canceled, staged, nxt, bnxt, unr)
    ev = events.TaskExecutionEvent("t", 0, pick(TK_ST, ts))
    machines.WorkflowStateMachine.process_event(st, ev)
    return st.status
