import subprocess, shutil, os, sys, re, time, json
from concurrent.futures import ThreadPoolExecutor
SRC = "/repo/orquesta"; MUT = "/tmp/mut/orquesta"
PY = "/verif/.venv/bin/python"; CH = "/verif/.venv/bin/crosshair"
def nth_replace(text, old, new, n):
    idx = -1
    for _ in range(n):
        idx = text.index(old, idx + 1)
    return text[:idx] + new + text[idx + len(old):]
MUTANTS = [
 ("m1_pausing_completed_succeeds", "machines.py", "events.TASK_SUCCEEDED_WORKFLOW_DORMANT_COMPLETED: statuses.PAUSED", "events.TASK_SUCCEEDED_WORKFLOW_DORMANT_COMPLETED: statuses.SUCCEEDED", 1, ["scout", "la"]),
 ("m4_offer_while_pausing", "conducting.py", "if self.get_workflow_status() not in statuses.RUNNING_STATUSES and not remediation_tasks:", "if self.get_workflow_status() not in statuses.RUNNING_STATUSES + [statuses.PAUSING] and not remediation_tasks:", 1, ["scout", "scout2"]),
 ("m5_canceling_failed_active", "machines.py", "events.TASK_FAILED_WORKFLOW_ACTIVE: statuses.CANCELING", "events.TASK_FAILED_WORKFLOW_ACTIVE: statuses.FAILED", 1, ["scout", "la"]),
 ("m6_join_keeps_root_ctx", "conducting.py", "                        out_ctx_idxs.remove(0)\n", "", 1, ["scout7"]),
 ("m7_resume_ignores_paused_tasks", "machines.py", "            and not workflow_state.has_paused_tasks\n", "", 1, ["scout", "scout3"]),
 ("m8_window_plus_one", "conducting.py", 'availability = task["concurrency"] - len(active_items)', 'availability = task["concurrency"] - len(active_items) + 1', 1, ["scout2", "lk"]),
 ("m9_unsorted_offers", "conducting.py", 'return sorted(next_tasks, key=lambda x: (x["id"], x["route"]))', "return next_tasks", 1, ["scout", "scout6"]),
 ("m2_barrier_strict", "conducting.py", "if list(inbound_evaluation.values()).count(True) >= requirement:", "if list(inbound_evaluation.values()).count(True) > requirement:", 1, ["scout6", "lk"]),
 ("m3_retry_off_by_one", "conducting.py", "if retry_tally >= retry_count:", "if retry_tally > retry_count:", 1, ["scout3", "lk"]),
]
def targets(kind):
    out = []
    def fns(mod, prefix):
        src = open("/tmp/camp/%s.py" % mod).read().split("\n")
        return [(mod, i + 2) for i, l in enumerate(src) if l.startswith("def " + prefix)]
    if kind == "scout": out += fns("scout_gen", "scout_")
    if kind == "scout2": out += fns("scout2", "scout_items(")
    if kind == "scout3": out += fns("scout3", "scout_retry") + fns("scout3", "scout_rerun")
    if kind == "scout6": out += fns("scout6_gen", "tok_") + fns("scout6_gen", "twin_")
    if kind == "scout7": out += [t for t in fns("scout7_gen", "ctx_")][:2] + fns("scout7_gen", "ctx_P03")
    if kind == "la": out += fns("lemmas_gen", "L")
    if kind == "lk": out += fns("lk", "retry_kernel") + fns("lk", "barrier_kernel")
    return out
env = dict(os.environ, PYTHONPATH="/tmp/mut:/tmp/camp")
def run_ch(t):
    mod, line = t
    try:
        p = subprocess.run([CH, "check", "--report_all", "--per_condition_timeout", "400", "--per_path_timeout", "60", "%s.py:%d" % (mod, line)],
                           cwd="/tmp/camp", env=env, capture_output=True, text=True, timeout=500)
        o = (p.stdout + p.stderr)
    except subprocess.TimeoutExpired:
        o = "TIMEOUT"
    lines = [l for l in o.split("\n") if "error:" in l or "info:" in l or "Traceback" in l or "Error" in l]
    return mod, line, (lines[0][:230] if lines else o[-200:])
results = {}
for name, f, old, new, n, kinds in MUTANTS:
    shutil.rmtree(MUT); shutil.copytree(SRC, MUT)
    text = open(os.path.join(MUT, f)).read()
    assert old in text, name
    open(os.path.join(MUT, f), "w").write(nth_replace(text, old, new, n))
    t = subprocess.run(["/venv/bin/python", "-m", "pytest", "-q", "-p", "no:cacheprovider", "orquesta/tests"], cwd="/tmp/mut", env=dict(os.environ, PYTHONPATH="/tmp/mut"), capture_output=True, text=True)
    tests = t.stdout.strip().split("\n")[-1]
    # regenerate generated harness files against the mutant? they only contain signatures; reuse.
    ts = [x for k in kinds for x in targets(k)]
    with ThreadPoolExecutor(16) as ex:
        outs = list(ex.map(run_ch, ts))
    caught = [o for o in outs if "error:" in o[2]]
    other = [o for o in outs if "error:" not in o[2] and "Confirmed" not in o[2]]
    results[name] = {"tests": tests, "harnesses": len(outs), "caught_by": [(m, l, msg) for m, l, msg in caught][:3], "inconclusive": other[:2]}
    print(name, "| tests:", tests, "| harnesses:", len(outs), "| caught:", len(caught), "| other:", len(other), flush=True)
    for m, l, msg in caught[:2]: print("    ", m, l, msg[msg.find("error:"):][:200], flush=True)
    for m, l, msg in other[:1]: print("    ?", m, l, msg[:160], flush=True)
shutil.rmtree("/tmp/mut")
json.dump(results, open("/tmp/camp/results.json", "w"), indent=1)
