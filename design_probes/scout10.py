"""Scouting probe 10 (native): C16 data path with awkward JSON values; hidden names."""
import logging, json
logging.disable(logging.CRITICAL)
from orquesta import conducting, events, statuses as S
from orquesta.specs import native as native_specs
from orquesta.expressions import base as E
WF = """
version: 1.0
input:
  - v
tasks:
  t1:
    action: core.echo
    input:
      a: <% ctx().v %>
      b: <% ctx(v) %>
      c: "{{ ctx().v }}"
      d: "{{ ctx('v') }}"
    next:
      - publish:
          - r1: <% result() %>
          - r2: "{{ result() }}"
          - v2: <% ctx().v %>
        do: t2
  t2:
    action: core.echo
    input:
      a: <% ctx().r1 %>
      b: "{{ ctx().r2 }}"
output:
  - o1: <% ctx().r1 %>
  - o2: "{{ ctx().r2 }}"
  - o3: <% ctx().v2 %>
"""
SPEC = native_specs.WorkflowSpec(WF)
assert SPEC.inspect() == {}, SPEC.inspect()
VALUES = [0, -1, 2**31, 2**63 - 1, 2**63, 2**64, 2**64 + 1, -2**63 - 1, 10**30, 1.5, 1e308, 5e-324, -0.0, 1e16, 0.1 + 0.2, True, False, None,
          "", "abc", "123", "1.0", "true", "null", "None", "%s %d", "{0}", "{}", "[1, 2]", '{"a": 1}', "a\nb", "é中", "\U0001F600", "it's", 'say "hi"', " lead", "x=1",
          [], {}, [1, [2, [3]]], {"k": {"n": [1, "2", None]}}, [True, None, 1.5, "s"], {"1": 1}, [{"a": []}, {}]]
def same(a, b):
    return type(a) is type(b) and json.dumps(a, sort_keys=True) == json.dumps(b, sort_keys=True)
bad = []
for v in VALUES:
    try:
        c = conducting.WorkflowConductor(SPEC, inputs={"v": v}); c.request_workflow_status(S.RUNNING)
        t = c.get_next_tasks()
        if not t:
            bad.append((v, "no task offered", c.errors[:1])); continue
        inp = t[0]["actions"][0]["input"]
        for k in "abcd":
            if not same(inp[k], v): bad.append((v, "action input " + k, inp[k]))
        c.update_task_state("t1", 0, events.ActionExecutionEvent(S.RUNNING))
        c = conducting.WorkflowConductor.deserialize(c.serialize())
        c.update_task_state("t1", 0, events.ActionExecutionEvent(S.SUCCEEDED, result=v))
        t = c.get_next_tasks(); inp = t[0]["actions"][0]["input"]
        for k in "ab":
            if not same(inp[k], v): bad.append((v, "t2 input " + k, inp[k]))
        c.update_task_state("t2", 0, events.ActionExecutionEvent(S.RUNNING)); c.update_task_state("t2", 0, events.ActionExecutionEvent(S.SUCCEEDED))
        c.render_workflow_output(); out = c.get_workflow_output()
        for k in ("o1", "o2", "o3"):
            if out is None or not same(out.get(k), v): bad.append((v, "output " + k, None if out is None else out.get(k)))
    except Exception as e:
        bad.append((v, "EXC " + type(e).__name__, str(e)[:80]))
for b in bad: print(repr(b)[:200])
print(len(VALUES), "values,", len(bad), "discrepancies")
# hidden names
ctx = {"x": 1, "__state": {"secret": 1}, "__current_task": {"id": "t"}}
for ex in ["<% ctx(__state) %>", "<% ctx().__state %>", "<% ctx() %>", "{{ ctx('__state') }}", "{{ ctx().__state }}", "{{ ctx() }}", "<% ctx().keys() %>", "<% ctx('__current_task') %>"]:
    try: print(ex, "->", E.evaluate(ex, ctx))
    except Exception as e: print(ex, "-> EXC", type(e).__name__, str(e)[:90])
