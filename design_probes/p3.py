import logging
logging.disable(logging.CRITICAL)
import p2
from p2 import *

def run3(s0: bool, s1: bool, s2: bool, s3: bool, o0: bool, o1: bool, o2: bool, o3: bool,
         a0: bool, a1: bool, a2: bool, a3: bool, b0: bool, b1: bool, b2: bool, b3: bool) -> str:
    """
    post: _ in ("succeeded", "failed")
    """
    sched=[s0,s1,s2,s3]; ok=[o0,o1,o2,o3]; ra=[a0,a1,a2,a3]; rb=[b0,b1,b2,b3]
    c = conducting.WorkflowConductor(SPEC)
    c.request_workflow_status(statuses.RUNNING)
    inflight = []
    step = 0
    while True:
        for t in c.get_next_tasks():
            c.update_task_state(t["id"], t["route"], events.ActionExecutionEvent(statuses.RUNNING))
            inflight.append((t["id"], t["route"]))
        if not inflight or step >= N:
            break
        idx = 1 if (len(inflight) > 1 and sched[step]) else 0
        tid, r = inflight.pop(idx)
        st = statuses.SUCCEEDED if ok[step] else statuses.FAILED
        c.update_task_state(tid, r, events.ActionExecutionEvent(st, result={"a": ra[step], "b": rb[step]}))
        step += 1
    s = c.get_workflow_status()
    assert not (s == "running" and not inflight)
    return s
