import logging, json, hashlib; logging.disable(logging.CRITICAL)
from orquesta.specs import native as native_specs
WF = """
version: 1.0
tasks:
  t1:
    action: core.echo
    input:
      m1: <% ctx().zz %> one
      m2: <% ctx().zz %> two
      m3: "{{ ctx().zz }} three"
      m4: <% ctx().zz + 4 %>
"""
r = native_specs.WorkflowSpec(WF).inspect()
print(hashlib.md5(json.dumps(r).encode()).hexdigest()[:8], [e["expression"] for e in r["context"]])
