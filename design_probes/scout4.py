"""Scouting probe 4: C11 fault injection at every expression-bearing position (choice-point mode)."""
import logging
logging.disable(logging.CRITICAL)
from crosshair.tracers import NoTracing
from scout import cb, ci, KnownFinding
from orquesta import conducting, events, statuses as S
from orquesta.specs import native as native_specs
from orquesta.expressions import base as expr_base
from orquesta.expressions import yql

MARKS = ["M_indef", "M_vars", "M_action", "M_input", "M_delay", "M_rwhen", "M_rcount", "M_rdelay",
         "M_when", "M_pub", "M_items", "M_conc", "M_out"]
INT_POS = {"M_delay", "M_rcount", "M_rdelay", "M_conc"}
WF = """
version: 1.0
input:
  - M_indef
  - M_vars
  - M_action
  - M_input
  - M_delay
  - M_rwhen
  - M_rcount
  - M_rdelay
  - M_when
  - M_pub
  - M_items
  - M_conc
  - M_out
  - dflt: <% ctx().M_indef %>
vars:
  - v1: <% ctx().M_vars %>
tasks:
  t1:
    delay: <% ctx().M_delay %>
    action: <% ctx().M_action %>
    input:
      x: <% ctx().M_input %>
    retry:
      when: <% ctx().M_rwhen and failed() %>
      count: <% ctx().M_rcount %>
      delay: <% ctx().M_rdelay %>
    next:
      - when: <% ctx().M_when and succeeded() %>
        publish:
          - p: <% ctx().M_pub %>
        do: t2
  t2:
    with:
      items: <% ctx().M_items %>
      concurrency: <% ctx().M_conc %>
    action: core.echo message=<% item() %>
output:
  - o: <% ctx().M_out %>
"""
SPEC = native_specs.WorkflowSpec(WF)
INPUTS = {"M_indef": 5, "M_vars": 6, "M_action": "core.noop", "M_input": 7, "M_delay": 1, "M_rwhen": True, "M_rcount": 1,
          "M_rdelay": 2, "M_when": True, "M_pub": 8, "M_items": [1, 2], "M_conc": 1, "M_out": 9}
FAULT = {"mark": None, "kind": 0, "nth": 0, "seen": 0, "fired": False}
_real = expr_base.evaluate
def faulty(statement, data=None):
    m = FAULT["mark"]
    if m is not None and isinstance(statement, str) and m in statement and ("<%" in statement):
        FAULT["seen"] += 1
        if FAULT["seen"] - 1 == FAULT["nth"]:
            FAULT["fired"] = True
            if FAULT["kind"] == 0:
                raise yql.YaqlEvaluationException("injected fault at %s" % m)
            return "not-an-int" if m in INT_POS else ({"not": "a list"} if m == "M_items" else None)
    return _real(statement, data)
expr_base.evaluate = faulty

def api(log, name, fn, *a):
    try:
        return fn(*a)
    except Exception as e:
        from orquesta import exceptions as exc
        if name == "request_workflow_status" and isinstance(e, exc.InvalidWorkflowStatusTransition) and fn.__self__.get_workflow_status() == S.FAILED:
            return None   # lifecycle rejection of a request on a failed workflow (C04), not an escaped evaluation error
        raise AssertionError("C11 %s escaped from %s at %s kind=%d nth=%d %s" % (type(e).__name__, name, FAULT["mark"], FAULT["kind"], FAULT["nth"], log))

def drive(pos, kind, nth, o):
    FAULT.update(mark=None, kind=0, nth=0, seen=0, fired=False)
    pi = ci(pos, len(MARKS) + 1)
    if pi < len(MARKS):
        FAULT["mark"] = MARKS[pi]; FAULT["kind"] = ci(kind, 2); FAULT["nth"] = ci(nth, 2)
    if FAULT["kind"] == 1 and FAULT["mark"] not in INT_POS and FAULT["mark"] != "M_items":
        return "n/a"
    log = []
    c = conducting.WorkflowConductor(SPEC, inputs=dict(INPUTS))
    api(log, "request_workflow_status", c.request_workflow_status, S.RUNNING) if True else None
    inflight = []; acc = [None, None]; step = 0
    def offers():
        nt = api(log, "get_next_tasks", c.get_next_tasks)
        if FAULT["fired"] and c.get_workflow_status() == S.FAILED:
            assert not nt, "C11 offer after contained failure %s" % log
        for t in nt:
            if t["id"] == "t2":
                for a in t["actions"]:
                    api(log, "update_task_state", c.update_task_state, "t2", 0, events.TaskItemActionExecutionEvent(a["item_id"], S.RUNNING))
                    inflight.append(("t2", a["item_id"])); log.append("+t2[%d]" % a["item_id"])
            else:
                api(log, "update_task_state", c.update_task_state, t["id"], t["route"], events.ActionExecutionEvent(S.RUNNING))
                inflight.append((t["id"], None)); log.append("+" + t["id"])
    def post():
        if FAULT["fired"]:
            if FAULT["mark"] in ("M_rwhen", "M_rcount", "M_rdelay"):
                return
            assert c.errors, "C11 fault not recorded %s %s" % (FAULT["mark"], log)
            assert c.get_workflow_status() in (S.FAILED, S.CANCELED), "C11 status %s after fault at %s %s" % (c.get_workflow_status(), FAULT["mark"], log)
    try:
        offers(); post()
        while inflight and step < 6:
            tid, i = inflight.pop(0)
            ok = cb(o[step]); step += 1
            if tid == "t2":
                acc[i] = i
                api(log, "update_task_state", c.update_task_state, "t2", 0, events.TaskItemActionExecutionEvent(i, S.SUCCEEDED if ok else S.FAILED, result=i, accumulated_result=list(acc)))
            else:
                api(log, "update_task_state", c.update_task_state, tid, 0, events.ActionExecutionEvent(S.SUCCEEDED if ok else S.FAILED))
            log.append("-%s:%s" % (tid, ok)); post(); offers(); post()
        if c.get_workflow_status() in S.COMPLETED_STATUSES:
            api(log, "render_workflow_output", c.render_workflow_output); post()
    except AssertionError as e:
        if FAULT["mark"] in ("M_rwhen", "M_rcount", "M_rdelay") and "escaped from update_task_state" in str(e):
            return "known:F1"
        raise
    return c.get_workflow_status()

def scout_faults(pos: int, kind: int, nth: int, o0: bool, o1: bool, o2: bool, o3: bool, o4: bool, o5: bool) -> str:
    """
    pre: 0 <= pos <= len(MARKS) and 0 <= kind < 2 and 0 <= nth < 2
    post: True
    """
    with NoTracing():
        return drive(pos, kind, nth, [o0, o1, o2, o3, o4, o5])

drive(len(MARKS), 0, 0, [True] * 6)
