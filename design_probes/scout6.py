"""Scouting probe 6: reference token-game oracle (C01/C07) and order-independence twin (C08)."""
import logging, yaml
logging.disable(logging.CRITICAL)
from crosshair.tracers import NoTracing
from scout import cb, ci, KnownFinding
from orquesta import conducting, events, statuses as S
from orquesta.specs import native as native_specs

# harness-side definition language: cond in {"any","ok","fail","c0","c1"}; targets are task names or engine commands
DEFS = {
 "D03": {"s": {"next": [("c0", ["a"]), ("c1", ["b"]), ("fail", ["fail"])]}, "a": {}, "b": {"next": [("ok", ["c"])]}, "c": {}},
 "D05": {"s": {"next": [("any", ["a", "b", "c"])]}, "a": {"next": [("ok", ["j"])]}, "b": {"next": [("ok", ["j"])]},
         "c": {"next": [("ok", ["j"])]}, "j": {"join": 2, "next": [("any", ["z"])]}, "z": {}},
 "D06": {"s": {"next": [("any", ["a", "b"])]}, "a": {"next": [("ok", ["x"])]}, "b": {"next": [("ok", ["x"])]}, "x": {"next": [("any", ["y"])]}, "y": {}},
 "D12": {"s": {"next": [("any", ["a", "b"])]}, "a": {"next": [("ok", ["j"]), ("fail", ["r"])]}, "b": {"next": [("ok", ["j"])]},
         "r": {}, "j": {"join": "all", "next": [("any", ["z"])]}, "z": {}},
 "D15": {"a": {"next": [("c0", ["b"]), ("c1", ["b"]), ("fail", ["noop"])]}, "b": {"next": [("ok", ["c"])]}, "c": {}},
}
COND = {"any": None, "ok": "<% succeeded() %>", "fail": "<% failed() %>", "c0": "<% succeeded() and result().c0 %>", "c1": "<% succeeded() and result().c1 %>"}
CMDS = ("fail", "noop", "continue")
def to_spec(d):
    tasks = {}
    for n, t in d.items():
        ts = {"action": "core.noop"}
        if t.get("join"): ts["join"] = t["join"]
        nx = []
        for cond, do in t.get("next", []):
            tr = {"do": do}
            if COND[cond]: tr["when"] = COND[cond]
            nx.append(tr)
        if nx: ts["next"] = nx
        tasks[n] = ts
    return native_specs.WorkflowSpec({"version": 1.0, "tasks": tasks})
SPECS = {k: to_spec(v) for k, v in DEFS.items()}
for k, sp in SPECS.items():
    assert sp.inspect() == {}, (k, sp.inspect())

def sat(cond, ok, bits):
    return {"any": True, "ok": ok, "fail": not ok, "c0": ok and bits[0], "c1": ok and bits[1]}[cond]

class Oracle(object):
    """token game written from docs/source/languages/orquesta.rst; knows nothing of conductor internals"""
    def __init__(self, d):
        self.d = d
        self.inbound = {n: sorted({p for p, t in d.items() for _, do in t.get("next", []) if n in do}) for n in d}
        self.roots = sorted(n for n in d if not self.inbound[n])
        self.arrived = {n: set() for n in d if d[n].get("join")}
        self.fired = {n: False for n in self.arrived}
        self.failed = False
        self.executed = []
    def need(self, j):
        return len(self.inbound[j]) if self.d[j]["join"] == "all" else self.d[j]["join"]
    def complete(self, task, ok, bits):
        """returns the list of task ids that must be offered as a consequence (if the workflow goes on)"""
        self.executed.append(task)
        due = []; handled = False; fail_cmd = False
        for cond, do in self.d[task].get("next", []):
            if not sat(cond, ok, bits): continue
            for tgt in do:
                if tgt == "fail": fail_cmd = True
                elif tgt == "noop": handled = True
                elif tgt == "continue": pass
                elif self.d[tgt].get("join"):
                    handled = True
                    self.arrived[tgt].add(task)
                    if len(self.arrived[tgt]) >= self.need(tgt) and not self.fired[tgt]:
                        self.fired[tgt] = True; due.append(tgt)
                else:
                    handled = True; due.append(tgt)
        if fail_cmd or (not ok and not handled):
            self.failed = True
        return due

def run(name, r, o, b0, b1, by_task):
    try:
        return run_(name, r, o, b0, b1, by_task)
    except KnownFinding as e:
        return ("known", [], [str(e)])
def run_(name, r, o, b0, b1, by_task):
    """by_task: outcomes keyed by task name (C08) instead of by step"""
    d = DEFS[name]; names = sorted(d)
    c = conducting.WorkflowConductor(SPECS[name]); c.request_workflow_status(S.RUNNING)
    orc = Oracle(d); inflight = []; log = []; step = 0
    expect = list(orc.roots); runonfail = False
    def offers():
        nonlocal expect
        nt = [t["id"] for t in c.get_next_tasks()]
        st = c.get_workflow_status()
        for t in nt:
            if t not in expect and d[t].get("join") and orc.fired.get(t) and log and log[-1].split(":")[0][1:] in orc.inbound[t]:
                raise KnownFinding("F3 join %s re-offered on late arrival %s" % (t, log[-1]))
            assert t in expect, "C01 unjustified offer of %s (expected %s) %s" % (t, expect, log)
            if t in inflight and d[t].get("join"):
                pass
            expect.remove(t)
        if st in (S.RUNNING,) and not orc.failed:
            assert not expect, "C01 lost execution: %s due but not offered %s" % (expect, log)
        for t in c.get_next_tasks():
            c.update_task_state(t["id"], t["route"], events.ActionExecutionEvent(S.RUNNING)); inflight.append((t["id"], t["route"])); log.append("+%s/%d" % (t["id"], t["route"]))
    offers()
    while inflight and step < 8:
        idx = ci(r[step], len(inflight)) if len(inflight) > 1 else 0
        tid, rt = inflight.pop(idx)
        key = names.index(tid) if by_task else step
        ok = cb(o[key]); bits = (False, False)
        if any(cnd in ("c0", "c1") for cnd, _ in d[tid].get("next", [])):
            bits = (cb(b0[key]), cb(b1[key]))
        c.update_task_state(tid, rt, events.ActionExecutionEvent(S.SUCCEEDED if ok else S.FAILED, result={"c0": bits[0], "c1": bits[1]}))
        log.append("-%s:%s%s" % (tid, "ok" if ok else "fail", bits if any(bits) else ""))
        if not orc.failed:
            expect.extend(orc.complete(tid, ok, bits))
        else:
            orc.executed.append(tid)
        if orc.failed: expect = []
        step += 1
        offers()
    st = c.get_workflow_status()
    if not inflight:
        unreach = any(orc.arrived[j] and not orc.fired[j] for j in orc.arrived)
        want = S.FAILED if (orc.failed or unreach) else S.SUCCEEDED
        assert st == want, "C01/C02 final status %s, oracle says %s %s" % (st, want, log)
        if st == S.SUCCEEDED:
            got = sorted(e["id"] for e in c.workflow_state.sequence if e["id"] not in CMDS)
            assert got == sorted(orc.executed), "C01 executed multiset %s != %s %s" % (got, sorted(orc.executed), log)
    return st, sorted(e["id"] for e in c.workflow_state.sequence if e["id"] not in CMDS), log

SIG = "r0: int, r1: int, r2: int, r3: int, r4: int, r5: int, r6: int, r7: int, o0: bool, o1: bool, o2: bool, o3: bool, o4: bool, o5: bool, o6: bool, o7: bool, a0: bool, a1: bool, a2: bool, a3: bool, e0: bool, e1: bool, e2: bool, e3: bool"
PRE = "pre: all(0 <= x < 3 for x in (r0, r1, r2, r3, r4, r5, r6, r7))"
ARGS = "[r0, r1, r2, r3, r4, r5, r6, r7], [o0, o1, o2, o3, o4, o5, o6, o7], [a0, a1, a2, a3, a0, a1, a2, a3], [e0, e1, e2, e3, e0, e1, e2, e3]"
src = []
for name in DEFS:
    src.append('def tok_%s(%s):\n    """\n    %s\n    post: True\n    """\n    with NoTracing():\n        return run("%s", %s, False)[0]\n' % (name, SIG, PRE, name, ARGS))
    src.append('def twin_%s(%s):\n    """\n    %s\n    post: True\n    """\n    with NoTracing():\n        x = run("%s", %s, True)\n        y = run("%s", [0] * 8, [o0, o1, o2, o3, o4, o5, o6, o7], [a0, a1, a2, a3, a0, a1, a2, a3], [e0, e1, e2, e3, e0, e1, e2, e3], True)\n        if "known" in (x[0], y[0]): return "known"\n        assert x[0] == y[0], "C08 status %%s vs canonical %%s %%s | %%s" %% (x[0], y[0], x[2], y[2])\n        assert x[0] != "succeeded" or x[1] == y[1], "C08 executed %%s vs %%s %%s | %%s" %% (x[1], y[1], x[2], y[2])\n        return x[0]\n' % (name, SIG, PRE, name, ARGS, name))
exec("\n".join(src))
for name in DEFS:
    run(name, [0] * 8, [True] * 8, [True] * 8, [False] * 8, False)
if __name__ == "__main__":
    open("/tmp/pa/scout6_gen.py", "w").write("from scout6 import *\n" + "\n".join(src))
