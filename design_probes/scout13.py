"""Scouting probe 13: C17 explicit rerun requests vs the clean twin."""
import logging, json
logging.disable(logging.CRITICAL)
from crosshair.tracers import NoTracing
from scout import cb, ci, KnownFinding
from orquesta import conducting, events, statuses as S, requests, exceptions as exc
from orquesta.specs import native as native_specs
WF = """
version: 1.0
tasks:
  s:
    action: core.noop
    next:
      - when: <% succeeded() %>
        publish: ps=1
        do: a, b
  a:
    action: core.noop
    next:
      - when: <% succeeded() %>
        publish: pa=2
        do: c
  b:
    action: core.noop
    next:
      - when: <% succeeded() %>
        publish: pb=3
        do: j
  c:
    action: core.noop
    next:
      - when: <% succeeded() %>
        do: j
  j:
    join: all
    action: core.noop
    next:
      - when: <% succeeded() %>
        publish: pj=4
output:
  - pa: <% ctx().get(pa) %>
  - pb: <% ctx().get(pb) %>
  - pj: <% ctx().get(pj) %>
"""
SPEC = native_specs.WorkflowSpec(WF); assert SPEC.inspect() == {}
NAMES = ["s", "a", "b", "c", "j"]
STEPS = 7
def run_until_rest(c, r, ok_of, log, execs, base):
    inflight = []; step = 0
    def offers():
        for t in c.get_next_tasks():
            c.update_task_state(t["id"], t["route"], events.ActionExecutionEvent(S.RUNNING)); inflight.append(t["id"]); log.append("+" + t["id"]); execs.append(t["id"])
    offers()
    while inflight and step < STEPS:
        acts = sorted(inflight)
        tid = acts[ci(r[base + step], len(acts)) if len(acts) > 1 else 0]; inflight.remove(tid)
        ok = ok_of(tid)
        c.update_task_state(tid, 0, events.ActionExecutionEvent(S.SUCCEEDED if ok else S.FAILED)); log.append("-%s:%s" % (tid, "ok" if ok else "fail")); step += 1
        offers()
    return not inflight
def final(c):
    if c.get_workflow_status() in S.COMPLETED_STATUSES: c.render_workflow_output()
    return c.get_workflow_status(), c.get_workflow_output()
def drive(r, okbits, reqbits, bogus, use_default):
    log = []; execs = []
    c = conducting.WorkflowConductor(SPEC); c.request_workflow_status(S.RUNNING)
    fails = {n: not cb(okbits[i]) for i, n in enumerate(NAMES)}
    if not run_until_rest(c, r, lambda t: not fails[t], log, execs, 0): return "cut"
    st = c.get_workflow_status()
    assert st in (S.SUCCEEDED, S.FAILED), "rest status %s %s" % (st, log)
    ran = [e["id"] for e in c.workflow_state.sequence]
    req = [] if cb(use_default) else [n for i, n in enumerate(NAMES) if cb(reqbits[i])]
    if cb(bogus): req = req + ["zz"]
    before = json.dumps(c.serialize(), sort_keys=True)
    try:
        c.request_workflow_rerun([requests.TaskRerunRequest.new(n, 0) for n in req] or None)
        accepted = True
    except Exception as e:
        accepted = False
        assert isinstance(e, (exc.InvalidTaskRerunRequest, exc.WorkflowIsActiveAndNotRerunableError)), "C17 unexpected %s %s" % (type(e).__name__, log)
        assert json.dumps(c.serialize(), sort_keys=True) == before, "C17 rejected rerun changed state %s" % log
    missing = [n for n in req if n not in ran]
    assert accepted == (not missing), "C17 accepted=%s although requested-but-never-run=%s %s" % (accepted, missing, log)
    if not accepted: return "rejected"
    log.append("RERUN%s" % req)
    assert c.get_workflow_status() == S.RESUMING, "C17 status after accepted rerun %s" % c.get_workflow_status()
    execs2 = []
    done = run_until_rest(c, r, lambda t: True, log, execs2, STEPS)
    if not done: return "cut"
    st2 = c.get_workflow_status()
    assert st2 in (S.SUCCEEDED, S.FAILED, S.CANCELED, S.PAUSED), "C17 accepted rerun left the workflow %s with nothing to do %s" % (st2, log)
    assert st2 != S.RESUMING
    # what must be re-executed: requested (default: failed terminal) + descendants + work still due; nothing else
    targets = set(req) if req else {e["id"] for e in c.workflow_state.sequence[:len(ran)] if e.get("status") == S.FAILED}
    desc = {"s": {"a", "b", "c", "j"}, "a": {"c", "j"}, "b": {"j"}, "c": {"j"}, "j": set()}
    allowed = set(targets)
    for t in targets: allowed |= desc[t]
    never = {n for n in NAMES if n not in ran}
    extra = [t for t in execs2 if t not in allowed and t not in never]
    assert not extra, "C17 re-executed %s which was neither requested nor downstream nor still due (requested %s) %s" % (extra, sorted(targets), log)
    for t in targets: assert t in execs2, "C17 requested %s not re-executed %s" % (t, log)
    # clean twin: the original outcome assignment with the failures of the re-executed tasks flipped to success
    redone = set(execs2)
    clean = conducting.WorkflowConductor(SPEC); clean.request_workflow_status(S.RUNNING)
    run_until_rest(clean, r, lambda t: True if t in redone else not fails[t], [], [], 0)
    fc, fk = final(c), final(clean)
    assert fc[0] == fk[0], "C17 rerun status %s differs from the clean run %s (re-executed %s) %s" % (fc, fk, sorted(redone), log)
    if fc[0] == S.SUCCEEDED:
        assert fc[1] == fk[1], "C17 rerun output %s differs from the clean run %s (re-executed %s) %s" % (fc, fk, sorted(redone), log)
    return st2
def scout_rerun(r0: int, r1: int, r2: int, r3: int, r4: int, r5: int, r6: int, k0: bool, k1: bool, k2: bool, k3: bool, k4: bool,
                q0: bool, q1: bool, q2: bool, q3: bool, q4: bool, bogus: bool, dflt: bool) -> str:
    """
    pre: all(0 <= x < 3 for x in (r0, r1, r2, r3, r4, r5, r6))
    post: True
    """
    with NoTracing():
        return drive([r0, r1, r2, r3, r4, r5, r6] + [0] * STEPS, [k0, k1, k2, k3, k4], [q0, q1, q2, q3, q4], bogus, dflt)
print(drive([0] * 14, [True, True, False, True, True], [False] * 5, False, True), drive([0] * 14, [True] * 5, [True, False, False, False, False], False, False))
