import logging
logging.disable(logging.CRITICAL)
from orquesta import machines, events, statuses as S

WF_ST = list(machines.WORKFLOW_STATE_MACHINE_DATA.keys())
TK_ST = [s for s in S.ALL_STATUSES if ("task_%s" % s) in events.TASK_EXECUTION_EVENTS]
class AbsState(object):
    def __init__(self, status, act, pausing, paused, canceling, canceled, staged, nxt, bnxt, unr):
        self.status = status
        self.has_active_tasks = act; self.has_pausing_tasks = pausing; self.has_paused_tasks = paused
        self.has_canceling_tasks = canceling; self.has_canceled_tasks = canceled; self.has_staged_tasks = staged
        self._nxt = nxt; self._bnxt = bnxt; self._unr = unr
        self.conductor = self; self.logged = 0
    def has_next_tasks(self, task_id=None, route=None): return self._nxt
    def has_barrier_next(self, task_id=None, route=None): return self._bnxt
    def get_unreachable_barriers(self): return [{"id": "j", "route": 0}] if self._unr else []
    def log_error(self, e, task_id=None, route=None): self.logged += 1
def pick(lst, i):
    for k in range(len(lst)):
        if i == k:
            return lst[k]
    return lst[0]
def inv(t, act, pausing, paused, canceling, canceled, nxt, bnxt):
    # representation invariant: the event's own task is part of the state
    if t in S.ACTIVE_STATUSES and not act: return False
    if (pausing or canceling) and not act: return False
    if t == S.PAUSING and not pausing: return False
    if t in (S.PAUSED, S.PENDING) and not paused: return False
    if t == S.CANCELING and not canceling: return False
    if t == S.CANCELED and not canceled: return False
    if t not in S.COMPLETED_STATUSES and (nxt or bnxt): return False   # _has_next needs a completed record
    return True
def go(ws, ts, act, pausing, paused, canceling, canceled, staged, nxt, bnxt, unr):
    w = pick(WF_ST, ws); t = pick(TK_ST, ts)
    st = AbsState(w, act, pausing, paused, canceling, canceled, staged, nxt, bnxt, unr)
    machines.WorkflowStateMachine.process_event(st, events.TaskExecutionEvent("t", 0, t))
    return w, t, st.status
PRE = "pre: 0 <= ws < len(WF_ST) and 0 <= ts < len(TK_ST)\n    pre: inv(pick(TK_ST, ts), act, pausing, paused, canceling, canceled, nxt, bnxt)"
SIG = "ws: int, ts: int, act: bool, pausing: bool, paused: bool, canceling: bool, canceled: bool, staged: bool, nxt: bool, bnxt: bool, unr: bool"
ARGS = "ws, ts, act, pausing, paused, canceling, canceled, staged, nxt, bnxt, unr"
LEMMAS = {
 "L1_succeeded_truthful": "not (_[2] == 'succeeded' and _[0] != 'succeeded') or (not act and not staged and not nxt and not pausing and not paused and not canceling and not canceled and not unr and (_[1] == 'succeeded' or (_[1] == 'failed' and bnxt)))",
 "L2_rest_means_dormant": "not (_[2] in ('paused','canceled') and _[2] != _[0]) or not act",
 "L3_ing_means_active": "not (_[2] in ('pausing','canceling') and _[2] != _[0]) or act",
 "L4_terminal_final": "not (_[0] in ('failed','canceled','succeeded')) or _[2] == _[0]",
 "L4b_terminal_final_modulo_unreachable": "not (_[0] in ('failed','canceled','succeeded')) or _[2] == _[0] or (unr and _[2] == 'failed')",
 "L5_no_stuck": "not (_[0] in ('running','resuming','pausing','canceling') and _[1] in ('succeeded','failed','canceled') and not act and not staged and not nxt and not paused) or _[2] in ('succeeded','failed','canceled','paused')",
 "L6_unhandled_failure_fails": "not (_[1] == 'failed' and not nxt and not bnxt and _[0] in ('running','pausing','resuming')) or _[2] == 'failed'",
 "L7_pausing_holds": "not (_[0] == 'pausing') or _[2] in ('pausing','paused','failed','canceling','canceled')",
 "L8_canceling_holds": "not (_[0] == 'canceling') or _[2] in ('canceling','canceled') or (unr and _[2] == 'failed')",
 "L8b_canceling_holds_strict": "not (_[0] == 'canceling') or _[2] in ('canceling','canceled')",
}
src = []
for name, post in LEMMAS.items():
    src.append('def %s(%s):\n    """\n    %s\n    post: %s\n    """\n    return go(%s)\n' % (name, SIG, PRE, post, ARGS))
exec("\n".join(src))
if __name__ == "__main__":
    open("/tmp/pa/lemmas_gen.py", "w").write("from la import *\n" + "\n".join(src))
