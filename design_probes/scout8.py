"""Scouting probe 8: E3 for C20 -- tokenisation of inline parameters, ordered alternation + greedy extent, replayed on the real parser."""
import json, re, time
import z3
import re._parser as sp
from rxlib import tr, ch, anychar
from orquesta.utils import parameters as P

alts = P.REGEX_INLINE_PARAM_VARIATIONS
R = [tr(sp.parse(a)) for a in alts]
ANY = z3.Star(anychar())
D = z3.Range("0", "9")
def cat(*xs): return z3.Concat(*xs)
def lit(s): return z3.Re(z3.StringVal(s))
noq = z3.Intersect(anychar(), z3.Complement(ch('"')))
noa = z3.Intersect(anychar(), z3.Complement(ch("'")))
INT = cat(z3.Option(ch("-")), z3.Union(ch("0"), cat(z3.Range("1", "9"), z3.Star(D))))
FLT = cat(INT, ch("."), z3.Plus(D))
def icase(w): return cat(*[z3.Union(ch(c.lower()), ch(c.upper())) for c in w])
# documented value classes: (name, language of the written value, index of the alternative meant to take it, python meaning)
CLASSES = [
  ("integer", INT, alts.index(P.REGEX_INTEGER), lambda v: int(v)),
  ("float", FLT, alts.index(P.REGEX_FLOATING_NUMBER), lambda v: float(v)),
  ("true", icase("true"), alts.index(P.REGEX_TRUE), lambda v: True),
  ("false", icase("false"), alts.index(P.REGEX_FALSE), lambda v: False),
  ("null", lit("null"), alts.index(P.REGEX_NULL), lambda v: None),
  ("dquoted", cat(ch('"'), z3.Star(noq), ch('"')), alts.index(P.REGEX_VALUE_IN_QUOTES), lambda v: v[1:-1]),
  ("squoted", cat(ch("'"), z3.Star(noa), ch("'")), alts.index(P.REGEX_VALUE_IN_APOSTROPHES), lambda v: v[1:-1]),
  ("yaql", cat(lit("<%"), ANY, lit("%>")), alts.index("<%.*?%>"), lambda v: v),
  ("jinja", cat(lit("{{"), ANY, lit("}}")), alts.index("{{.*?}}"), lambda v: v),
]
TAILS = ["", " y=1", ", y=1", "; y=1", " y=1"]
v = z3.String("v")
report = []; nq = 0; t0 = time.time()
for name, lang, j, meaning in CLASSES:
    for tail in TAILS[:4]:
        s = z3.Concat(v, z3.StringVal(tail))
        base = [z3.InRe(v, lang), z3.Length(v) <= 8, z3.Length(v) >= 1]
        if name in ("yaql",): base.append(z3.Not(z3.Contains(z3.SubString(v, 2, z3.Length(v) - 3), z3.StringVal("%>"))))
        if name in ("jinja",): base.append(z3.Not(z3.Contains(z3.SubString(v, 2, z3.Length(v) - 3), z3.StringVal("}}"))))
        queries = []
        # (a) an earlier alternative matches some prefix of value+tail and steals the match
        for jj in range(j):
            queries.append(("stolen-by-alt-%d" % jj, z3.InRe(s, z3.Concat(R[jj], ANY))))
        # (b) the intended alternative, greedy, runs past the value into the tail (longer prefix also in its language)
        p = z3.String("p")
        queries.append(("overrun", z3.And(z3.PrefixOf(p, s), z3.Length(p) > z3.Length(v), z3.InRe(p, R[j]),
                                          z3.Not(z3.InRe(z3.SubString(p, z3.Length(v), z3.Length(p) - z3.Length(v)), z3.Star(ch(" ")))))))
        for qname, q in queries:
            sol = z3.Solver(); sol.set("timeout", 20000); sol.add(*base); sol.add(q); nq += 1
            r = str(sol.check())
            if r == "sat":
                val = sol.model()[v].as_string()
                text = "x=" + val + tail
                got = P.parse_inline_params(text)
                want = [{"x": meaning(val)}] + ([{"y": 1}] if tail else [])
                report.append((name, repr(tail), qname, text, "REPRODUCED got %r want %r" % (got, want) if got != want else "model-only (parser agrees)"))
            elif r != "unsat":
                report.append((name, repr(tail), qname, None, "INCONCLUSIVE " + r))
print("queries", nq, "time %.1fs" % (time.time() - t0))
for r in report: print(r)
# second part: post-processing on solver-enumerated values per class (bounded family)
bad = 0; n = 0
for name, lang, j, meaning in CLASSES:
    sol = z3.Solver(); sol.add(z3.InRe(v, lang), z3.Length(v) <= 5)
    if name == "yaql": sol.add(z3.Not(z3.Contains(z3.SubString(v, 2, z3.Length(v) - 3), z3.StringVal("%>"))))
    if name == "jinja": sol.add(z3.Not(z3.Contains(z3.SubString(v, 2, z3.Length(v) - 3), z3.StringVal("}}"))))
    k = 0
    while k < 40 and str(sol.check()) == "sat":
        val = sol.model()[v].as_string(); sol.add(v != z3.StringVal(val)); k += 1; n += 1
        got = P.parse_inline_params("x=" + val)
        try: want = [{"x": meaning(val)}]
        except Exception as e: want = "n/a"
        if got != want:
            bad += 1; print("VALUE", name, repr(val), "got", got, "want", want)
print("values", n, "disagreements", bad)
