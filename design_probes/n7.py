import logging; logging.disable(logging.CRITICAL)
import scout13 as s
from orquesta import conducting, events, statuses as S, requests
def go(req):
    c = conducting.WorkflowConductor(s.SPEC); c.request_workflow_status(S.RUNNING)
    log = []
    def offers():
        out = []
        for t in c.get_next_tasks():
            c.update_task_state(t["id"], t["route"], events.ActionExecutionEvent(S.RUNNING)); out.append(t["id"])
        return out
    def done(t, ok=True): c.update_task_state(t, 0, events.ActionExecutionEvent(S.SUCCEEDED if ok else S.FAILED))
    offers(); done("s"); offers(); done("a"); offers(); done("c"); done("b"); offers(); done("j", False)
    print("before rerun:", c.get_workflow_status())
    c.request_workflow_rerun([requests.TaskRerunRequest.new(n, 0) for n in req])
    print("rerun", req, "->", c.get_workflow_status(), "staged:", [(x["id"], x["ctxs"]["in"]) for x in c.workflow_state.staged])
    for _ in range(6):
        o = offers()
        if not o: break
        print("  offered", o)
        for t in o: done(t)
    c.render_workflow_output()
    print("  final", c.get_workflow_status(), c.get_workflow_output(), [e["id"] for e in c.workflow_state.sequence], c.errors)
go(["a"]); go(["a", "c"]); go(["j"])
