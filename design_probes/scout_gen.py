from scout import *
def scout_D05(r0: int, r1: int, r2: int, r3: int, r4: int, o0: bool, o1: bool, o2: bool, o3: bool, o4: bool, k: int, p: int) -> str:
    """
    pre: all(0 <= x < 3 for x in (r0, r1, r2, r3, r4)) and 0 <= k < 3 and 0 <= p < STEPS
    post: True
    """
    with NoTracing():
        return drive("D05", [r0, r1, r2, r3, r4], [o0, o1, o2, o3, o4], k, p)

def scout_D12(r0: int, r1: int, r2: int, r3: int, r4: int, o0: bool, o1: bool, o2: bool, o3: bool, o4: bool, k: int, p: int) -> str:
    """
    pre: all(0 <= x < 3 for x in (r0, r1, r2, r3, r4)) and 0 <= k < 3 and 0 <= p < STEPS
    post: True
    """
    with NoTracing():
        return drive("D12", [r0, r1, r2, r3, r4], [o0, o1, o2, o3, o4], k, p)

def scout_D02(r0: int, r1: int, r2: int, r3: int, r4: int, o0: bool, o1: bool, o2: bool, o3: bool, o4: bool, k: int, p: int) -> str:
    """
    pre: all(0 <= x < 3 for x in (r0, r1, r2, r3, r4)) and 0 <= k < 3 and 0 <= p < STEPS
    post: True
    """
    with NoTracing():
        return drive("D02", [r0, r1, r2, r3, r4], [o0, o1, o2, o3, o4], k, p)

def scout_D04(r0: int, r1: int, r2: int, r3: int, r4: int, o0: bool, o1: bool, o2: bool, o3: bool, o4: bool, k: int, p: int) -> str:
    """
    pre: all(0 <= x < 3 for x in (r0, r1, r2, r3, r4)) and 0 <= k < 3 and 0 <= p < STEPS
    post: True
    """
    with NoTracing():
        return drive("D04", [r0, r1, r2, r3, r4], [o0, o1, o2, o3, o4], k, p)

def scout_D07(r0: int, r1: int, r2: int, r3: int, r4: int, o0: bool, o1: bool, o2: bool, o3: bool, o4: bool, k: int, p: int) -> str:
    """
    pre: all(0 <= x < 3 for x in (r0, r1, r2, r3, r4)) and 0 <= k < 3 and 0 <= p < STEPS
    post: True
    """
    with NoTracing():
        return drive("D07", [r0, r1, r2, r3, r4], [o0, o1, o2, o3, o4], k, p)

def scout_D08(r0: int, r1: int, r2: int, r3: int, r4: int, o0: bool, o1: bool, o2: bool, o3: bool, o4: bool, k: int, p: int) -> str:
    """
    pre: all(0 <= x < 3 for x in (r0, r1, r2, r3, r4)) and 0 <= k < 3 and 0 <= p < STEPS
    post: True
    """
    with NoTracing():
        return drive("D08", [r0, r1, r2, r3, r4], [o0, o1, o2, o3, o4], k, p)
