import sys; sys.path.insert(0,'/tmp/c11s')
from h import *
wf = """
version: 1.0
tasks:
  t1:
    action: core.ask
    next:
      - when: <% result().a.b %>
        do: t2
  t2:
    action: core.noop
"""
c = mk(wf)
c.request_workflow_status(statuses.RUNNING)
print([t['id'] for t in c.get_next_tasks()])
ev(c,'t1',statuses.RUNNING)
ev(c,'t1',statuses.PENDING)
print(c.get_workflow_status())
c.request_workflow_status(statuses.CANCELED)
print(c.get_workflow_status())
try:
    ev(c,'t1',statuses.SUCCEEDED)
except Exception as e:
    print("ESCAPED", type(e), e)
print(c.get_workflow_status(), c.errors)
