from orquesta import conducting, events, statuses
from orquesta.specs import native as native_specs
import json
wf = """
version: 1.0
vars:
  - d:
      a: 1
tasks:
  t1:
    action: core.noop
    next:
      - publish:
          - d:
              b: 2
        do: t2
  t2:
    action: core.echo message=<% ctx().d %>
"""
spec = native_specs.WorkflowSpec(wf)
c = conducting.WorkflowConductor(spec)
c.request_workflow_status(statuses.RUNNING)
print([t['id'] for t in c.get_next_tasks()])
c.update_task_state('t1', 0, events.ActionExecutionEvent(statuses.RUNNING))
c.update_task_state('t1', 0, events.ActionExecutionEvent(statuses.SUCCEEDED, result=1))
s0 = json.dumps(c.serialize()['state']['contexts'])
print(s0)
n = c.get_next_tasks()
print(n[0]['actions'])
print(json.dumps(c.serialize()['state']['contexts']))
