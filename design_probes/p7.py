import logging
logging.disable(logging.CRITICAL)
from orquesta.expressions import base as E
from orquesta.utils import jsonify
E.evaluate("<% ctx().x %>", {"x": 1}); E.evaluate("{{ ctx().x }}", {"x": 1})

def yq_int(x: int):
    """
    post: _ == x and type(_) is int
    """
    return E.evaluate("<% ctx().x %>", {"x": x})

def jj_int(x: int):
    """
    post: _ == x
    """
    return E.evaluate("{{ ctx().x }}", {"x": x})

def yq_str(s: str):
    """
    pre: len(s) <= 3
    pre: "<" not in s and "{" not in s
    post: _ == s
    """
    return E.evaluate("<% ctx().x %>", {"x": s})

def pure(x: int, s: str):
    """
    pre: len(s) <= 3
    post: __old__.d == d
    """
    d = {"x": x, "s": s, "n": {"k": [x]}}
    E.evaluate("<% ctx().n.k %>", d)
    return d
