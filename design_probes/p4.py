import ujson
from crosshair import realize
from crosshair.tracers import NoTracing
def f(x: int, y: int) -> int:
    """
    pre: 0 <= x < 3 and 0 <= y < 1000
    post: _ != 7
    """
    with NoTracing():
        v = ujson.loads(ujson.dumps({"a": realize(x)}))["a"]
    return v + (1 if y > 500 else 0)

def g(x: int, y: int) -> int:
    """
    pre: 0 <= x < 3 and 0 <= y < 1000
    post: _ != 3
    """
    with NoTracing():
        v = ujson.loads(ujson.dumps({"a": realize(x)}))["a"]
    return v + (1 if y > 500 else 0)
