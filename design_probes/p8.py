import logging
logging.disable(logging.CRITICAL)
import stubs
from stubs import mini_eval
from orquesta import conducting, events, statuses
from orquesta.specs import native as native_specs
from orquesta.expressions import base as expr_base
import re
_prev = expr_base.evaluate
_CTX = re.compile(r"^<% ctx\(\)\.(\w+) %>$")
def ev2(statement, data=None):
    if isinstance(statement, str):
        m = _CTX.match(statement)
        if m:
            return data[m.group(1)]
        if statement == "<% item() %>":
            return data["__current_item"]
    if isinstance(statement, dict):
        return {k: ev2(v, data) for k, v in statement.items()}
    return _prev(statement, data)
expr_base.evaluate = ev2

WF = """
version: 1.0
input:
  - xs
  - k
tasks:
  t1:
    with:
      items: <% ctx().xs %>
      concurrency: <% ctx().k %>
    action: core.echo
    input:
      message: <% item() %>
"""
SPEC = native_specs.WorkflowSpec(WF)

def run(k: int, o0: bool, o1: bool, o2: bool, s0: bool, s1: bool, s2: bool) -> str:
    """
    pre: -1 <= k <= 4
    post: _ in ("succeeded", "failed")
    """
    n = 3
    ok = [o0, o1, o2]; sch = [s0, s1, s2]
    c = conducting.WorkflowConductor(SPEC, inputs={"xs": [10, 11, 12], "k": k})
    c.request_workflow_status(statuses.RUNNING)
    inflight = []; offered = []; step = 0; acc = [None]*n
    while True:
        for t in c.get_next_tasks():
            for a in t["actions"]:
                i = a["item_id"]
                assert i not in offered, "item offered twice"
                assert not offered or i == max(offered) + 1, "out of order"
                offered.append(i)
                c.update_task_state(t["id"], t["route"], events.TaskItemActionExecutionEvent(i, statuses.RUNNING))
                inflight.append(i)
        assert len(inflight) <= max(k, 1), "window exceeded"
        if not inflight:
            break
        idx = 1 if (len(inflight) > 1 and sch[step]) else 0
        i = inflight.pop(idx)
        acc[i] = i
        st = statuses.SUCCEEDED if ok[i] else statuses.FAILED
        c.update_task_state("t1", 0, events.TaskItemActionExecutionEvent(i, st, result=i, accumulated_result=list(acc)))
        step += 1
    return c.get_workflow_status()
run(2, True, True, True, False, False, False)
