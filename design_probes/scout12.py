"""Scouting probe 12: C09 twin (paused run vs unpaused replay of the same completion order) and C05 lock-step twin (live vs restored)."""
import logging, json
logging.disable(logging.CRITICAL)
from crosshair.tracers import NoTracing
from scout import cb, ci, KnownFinding
from orquesta import conducting, events, statuses as S
from orquesta.specs import native as native_specs
DEFS = {
"J": """
version: 1.0
vars:
  - acc: 0
tasks:
  s:
    action: core.noop
    next:
      - when: <% succeeded() %>
        publish: ps=1
        do: a, b
      - when: <% failed() %>
        do: cleanup, fail
  a:
    action: core.noop
    next:
      - when: <% succeeded() %>
        publish: pa=<% ctx().ps + 1 %>
        do: j
      - when: <% failed() %>
        do: r
  b:
    action: core.noop
    next:
      - when: <% succeeded() %>
        publish: pb=3
        do: c
  c:
    action: core.noop
    next:
      - do: j
  r:
    action: core.noop
  cleanup:
    action: core.noop
  j:
    join: all
    action: core.noop
output:
  - pa: <% ctx().get(pa) %>
  - pb: <% ctx().get(pb) %>
""",
"W": """
version: 1.0
input:
  - xs
tasks:
  w:
    with:
      items: <% ctx().xs %>
      concurrency: 2
    action: core.echo message=<% item() %>
    next:
      - when: <% succeeded() %>
        publish: out=<% result() %>
        do: z
  x:
    action: core.noop
  z:
    action: core.noop
output:
  - out: <% ctx().get(out) %>
""",
}
SPECS = {k: native_specs.WorkflowSpec(v) for k, v in DEFS.items()}
INPUTS = {"J": {}, "W": {"xs": [1, 2, 3]}}
for k, sp in SPECS.items(): assert sp.inspect() == {}, sp.inspect()
STEPS = 8

class Env(object):
    def __init__(self, name):
        self.c = conducting.WorkflowConductor(SPECS[name], inputs=dict(INPUTS[name])); self.c.request_workflow_status(S.RUNNING)
        self.inflight = []; self.acc = {}; self.order = []; self.offers_log = []
    def key(self, a): return a
    def offers(self):
        nt = self.c.get_next_tasks()
        rec = []
        for t in nt:
            if t["actions"] and "item_id" in t["actions"][0]:
                for a in t["actions"]:
                    self.c.update_task_state(t["id"], t["route"], events.TaskItemActionExecutionEvent(a["item_id"], S.RUNNING))
                    self.inflight.append((t["id"], t["route"], a["item_id"])); rec.append((t["id"], t["route"], a["item_id"], json.dumps(a["input"], sort_keys=True)))
            else:
                self.c.update_task_state(t["id"], t["route"], events.ActionExecutionEvent(S.RUNNING))
                self.inflight.append((t["id"], t["route"], None)); rec.append((t["id"], t["route"], None, json.dumps(t["actions"], sort_keys=True), t.get("delay"),
                                                                              json.dumps({k: v for k, v in t["ctx"].items() if not k.startswith("__")}, sort_keys=True)))
        self.offers_log.append(rec)
        return rec
    def report(self, act, ok):
        tid, rt, item = act
        self.inflight.remove(act); self.order.append((act, ok))
        if item is None:
            self.c.update_task_state(tid, rt, events.ActionExecutionEvent(S.SUCCEEDED if ok else S.FAILED, result={"v": 7}))
        else:
            acc = self.acc.setdefault(tid, [None, None, None]); acc[item] = 10 + item
            self.c.update_task_state(tid, rt, events.TaskItemActionExecutionEvent(item, S.SUCCEEDED if ok else S.FAILED, result=10 + item, accumulated_result=list(acc)))
    def final(self):
        c = self.c
        if c.get_workflow_status() in S.COMPLETED_STATUSES: c.render_workflow_output()
        return (c.get_workflow_status(), sorted((e["id"], e.get("status")) for e in c.workflow_state.sequence), c.get_workflow_output(),
                sorted(json.dumps(e, sort_keys=True) for e in c.errors))

def outcome(okbits, act, visit):
    names = ["s", "a", "b", "c", "r", "cleanup", "j", "w", "x", "z"]
    i = names.index(act[0]) if act[2] is None else 7 + act[2] % 3
    return cb(okbits[i % len(okbits)])

def paused_twin(name, r, okbits, p):
    B = Env(name); B.offers(); step = 0; pos = ci(p, STEPS); paused_req = False; log = []
    while step < STEPS:
        st = B.c.get_workflow_status()
        if pos == step and not paused_req and st in (S.RUNNING, S.RESUMING):
            B.c.request_workflow_status(S.PAUSING); paused_req = True; log.append("PAUSE")
            assert not B.offers(), "C09 offer right after pause request %s" % log
        if not B.inflight:
            st = B.c.get_workflow_status()
            if paused_req and st == S.PAUSED:
                B.c.request_workflow_status(S.RESUMING); paused_req = False; log.append("RESUME"); B.offers()
                if B.inflight: continue
            break
        acts = sorted(B.inflight, key=lambda a: (a[0], a[1], -1 if a[2] is None else a[2]))
        act = acts[ci(r[step], len(acts)) if len(acts) > 1 else 0]
        B.report(act, outcome(okbits, act, 0)); log.append("-%s%s" % (act[0], "" if act[2] is None else "[%d]" % act[2])); step += 1
        st = B.c.get_workflow_status()
        got = B.offers()
        if st in (S.PAUSING, S.PAUSED): assert not got, "C09 offer while %s %s" % (st, log)
        if paused_req and not B.inflight and st not in (S.FAILED, S.CANCELED, S.SUCCEEDED):
            assert B.c.get_workflow_status() == S.PAUSED, "C09 not paused at last report: %s %s" % (B.c.get_workflow_status(), log)
    if B.inflight or paused_req: return "cut"
    # unpaused twin replays B's completion order
    A = Env(name); A.offers()
    for act, ok in B.order:
        assert act in A.inflight, "C09 twin cannot follow the order: %s not in flight in the unpaused run %s" % (act, log)
        A.report(act, ok); A.offers()
    fa, fb = A.final(), B.final()
    assert fa == fb, "C09 paused run differs from unpaused: %s vs %s %s" % (fb, fa, log)
    return fb[0]

def crash_twin(name, r, okbits, crash):
    L = Env(name); R = Env(name); log = []
    assert L.offers() == R.offers(), "C05 initial offers differ"
    step = 0
    while step < STEPS and L.inflight:
        if cb(crash[step]):
            snap = R.c.serialize(); R.c = conducting.WorkflowConductor.deserialize(snap); log.append("CRASH")
            assert R.c.serialize() == snap, "C05 serialize not a fixpoint %s" % log
        acts = sorted(L.inflight, key=lambda a: (a[0], a[1], -1 if a[2] is None else a[2]))
        act = acts[ci(r[step], len(acts)) if len(acts) > 1 else 0]
        ok = outcome(okbits, act, 0)
        assert act in R.inflight, "C05 in-flight sets differ %s" % log
        L.report(act, ok); R.report(act, ok); log.append("-%s" % act[0]); step += 1
        lo, ro = L.offers(), R.offers()
        assert lo == ro, "C05 offers differ after %s: live %s restored %s" % (log, lo, ro)
    if L.inflight: return "cut"
    assert L.c.serialize() == R.c.serialize(), "C05 persisted forms differ %s" % log
    assert L.final() == R.final(), "C05 finals differ %s" % log
    return L.c.get_workflow_status()

SIG = "r0: int, r1: int, r2: int, r3: int, r4: int, r5: int, r6: int, r7: int, k0: bool, k1: bool, k2: bool, k3: bool, k4: bool, k5: bool, k6: bool"
RA = "[r0, r1, r2, r3, r4, r5, r6, r7], [k0, k1, k2, k3, k4, k5, k6]"
src = []
for name in DEFS:
    src.append('def pause_%s(%s, p: int):\n    """\n    pre: all(0 <= x < 3 for x in (r0, r1, r2, r3, r4, r5, r6, r7)) and 0 <= p < STEPS\n    post: True\n    """\n    with NoTracing():\n        return paused_twin("%s", %s, p)\n' % (name, SIG, name, RA))
    src.append('def crash_%s(%s, c0: bool, c1: bool, c2: bool, c3: bool, c4: bool, c5: bool):\n    """\n    pre: all(0 <= x < 3 for x in (r0, r1, r2, r3, r4, r5, r6, r7))\n    post: True\n    """\n    with NoTracing():\n        return crash_twin("%s", %s, [c0, c1, c2, c3, c4, c5, False, False])\n' % (name, SIG, name, RA))
exec("\n".join(src))
for name in DEFS:
    print(name, paused_twin(name, [0] * 8, [True] * 7, 2), crash_twin(name, [1] * 8, [True] * 7, [True] * 8))
if __name__ == "__main__":
    open("/tmp/pa/scout12_gen.py", "w").write("from scout12 import *\n" + "\n".join(src))
