"""Scouting probe 5: C14 composer vs independent reference over a bit-encoded family of definitions."""
import logging, itertools
logging.disable(logging.CRITICAL)
from crosshair.tracers import NoTracing
from scout import cb, ci
from orquesta.specs import native as native_specs
from orquesta.composers import native as comp
from orquesta import graphing

NAMES = ["t0", "t1", "t2"]
# Each task has up to 2 transitions; transition k of task i targets subset of NAMES (3 bits) -> 6 bits per task, 18 bits; join bit per task.
def build(bits, joins, order):
    tasks = {}
    for i, n in enumerate(NAMES):
        spec = {"action": "core.noop"}
        nxt = []
        for k in range(2):
            targets = [NAMES[j] for j in range(3) if bits[i][k][j]]
            if targets:
                nxt.append({"when": "<% result().c" + str(k) + " %>", "do": targets})
        if nxt: spec["next"] = nxt
        if joins[i]: spec["join"] = "all"
        tasks[n] = spec
    perm = list(itertools.permutations(NAMES))[order]
    return {"version": 1.0, "tasks": {n: tasks[n] for n in perm}}

def reference(defn):
    tasks = defn["tasks"]
    targets_of = {n: [(k, t) for k, tr in enumerate(tasks[n].get("next", [])) for t in tr["do"]] for n in tasks}
    has_in = {t for n in tasks for _, t in targets_of[n]}
    roots = sorted(n for n in tasks if n not in has_in)
    seen = set(); todo = list(roots)
    while todo:
        n = todo.pop()
        if n in seen: continue
        seen.add(n)
        todo.extend(t for _, t in targets_of[n])
    edges = sorted((n, t, k, tasks[n]["next"][k]["when"]) for n in seen for k, t in targets_of[n])
    barriers = {n: "*" for n in seen if tasks[n].get("join")}
    return roots, sorted(seen), edges, barriers

def check(bits, joins, order):
    defn = build(bits, joins, order)
    spec = native_specs.WorkflowSpec(defn)
    roots, nodes, edges, barriers = reference(defn)
    if not roots:
        return "no-start"
    if spec.inspect():
        return "rejected"
    g = comp.WorkflowComposer.compose(spec)
    ser = g.serialize()
    got_nodes = sorted(n["id"] for n in ser["nodes"])
    assert got_nodes == nodes, "C14 nodes %s != %s for %s" % (got_nodes, nodes, defn)
    got_edges = sorted((s, e[1], e[3]["ref"], (e[3]["criteria"] or [None])[0]) for s in got_nodes for e in g.get_next_transitions(s))
    assert got_edges == edges, "C14 edges %s != %s for %s" % (got_edges, edges, defn)
    assert [r["id"] for r in g.roots] == roots, "C14 roots %s != %s" % (g.roots, roots)
    assert {k: v.get("barrier") for k, v in g.get_barriers().items()} == barriers, "C14 barriers for %s" % defn
    g2 = graphing.WorkflowGraph.deserialize(ser)
    assert g2.serialize() == ser, "C14 serialisation not a fixpoint for %s" % defn
    base = comp.WorkflowComposer.compose(native_specs.WorkflowSpec(build(bits, joins, 0))).serialize()
    canon = lambda s: (sorted((n["id"], tuple(sorted((k, str(v)) for k, v in n.items() if k != "id"))) for n in s["nodes"]),
                       sorted((s["nodes"][i]["id"], e["id"], e["ref"], str(e["criteria"])) for i, adj in enumerate(s["adjacency"]) for e in adj))
    assert canon(ser) == canon(base), "C14 declaration order matters for %s" % defn
    return "ok"

def scout_compose(b00: bool, b01: bool, b02: bool, b03: bool, b04: bool, b05: bool,
                  b10: bool, b11: bool, b12: bool, b13: bool, b14: bool, b15: bool,
                  b20: bool, b21: bool, b22: bool, b23: bool, b24: bool, b25: bool,
                  j0: bool, j1: bool, j2: bool, order: int) -> str:
    """
    pre: 0 <= order < 6
    post: True
    """
    with NoTracing():
        raw = [[b00, b01, b02, b03, b04, b05], [b10, b11, b12, b13, b14, b15], [b20, b21, b22, b23, b24, b25]]
        bits = [[[cb(r[k * 3 + j]) for j in range(3)] for k in range(2)] for r in raw]
        joins = [cb(j0), cb(j1), cb(j2)]
        return check(bits, joins, ci(order, 6))
print(check([[[False, True, True], [False, False, False]], [[False, False, True], [False, False, False]], [[False] * 3, [False] * 3]], [False, False, True], 3))
