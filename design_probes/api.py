import sys, time, json, re, ast
import z3
_t = {"check": 0.0, "n": 0}
_orig = z3.Solver.check
def _check(self, *a):
    t = time.time()
    try:
        return _orig(self, *a)
    finally:
        _t["check"] += time.time() - t; _t["n"] += 1
z3.Solver.check = _check
from crosshair.core_and_libs import analyze_function, run_checkables, AnalysisKind, MessageType
from crosshair.options import AnalysisOptionSet
from crosshair.tracers import NoTracing
import p8
STATS = {"paths": 0}
orig_run = p8.run
def counted(k: int, o0: bool, o1: bool, o2: bool, s0: bool, s1: bool, s2: bool) -> str:
    """
    pre: -1 <= k <= 4
    post: _ in ("succeeded", "failed")
    """
    r = orig_run(k, o0, o1, o2, s0, s1, s2)
    with NoTracing():
        STATS["paths"] += 1
    return r
counted.__module__ = "p8"
p8.counted = counted
opts = AnalysisOptionSet(analysis_kind=[AnalysisKind.PEP316], per_condition_timeout=600, per_path_timeout=60, report_all=True)
t = time.time()
msgs = list(run_checkables(analyze_function(p8.counted, opts)))
for m in msgs:
    print(m.state, m.message[:200], m.line)
print("wall", time.time() - t, "paths", STATS, "solver", _t)
