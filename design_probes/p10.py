import logging
logging.disable(logging.CRITICAL)
from crosshair.tracers import NoTracing, ResumedTracing
from orquesta import conducting, events, statuses
from orquesta.specs import native as native_specs
WF = open("/dev/null").read() or """
version: 1.0
tasks:
  t1:
    action: core.noop
    next:
      - when: <% result().a %>
        do: t2
      - when: <% result().b %>
        do: t3
  t2:
    action: core.noop
    next:
      - when: <% result().a %>
        do: t4
  t3:
    action: core.noop
    next:
      - when: <% result().a %>
        do: t4
  t4:
    join: all
    action: core.noop
"""
SPEC = native_specs.WorkflowSpec(WF)
REFS = {"t1": ("a","b"), "t2": ("a",), "t3": ("a",), "t4": ()}
N = 4
def choose(x) -> bool:
    with ResumedTracing():
        return True if x else False

def run(s0: bool, s1: bool, s2: bool, s3: bool, o0: bool, o1: bool, o2: bool, o3: bool,
        a0: bool, a1: bool, a2: bool, a3: bool, b0: bool, b1: bool, b2: bool, b3: bool) -> str:
    """
    post: _ in ("succeeded", "failed")
    """
    sched=[s0,s1,s2,s3]; ok=[o0,o1,o2,o3]; ra=[a0,a1,a2,a3]; rb=[b0,b1,b2,b3]
    with NoTracing():
        c = conducting.WorkflowConductor(SPEC)
        c.request_workflow_status(statuses.RUNNING)
        inflight = []
        step = 0
        while True:
            for t in c.get_next_tasks():
                c.update_task_state(t["id"], t["route"], events.ActionExecutionEvent(statuses.RUNNING))
                inflight.append((t["id"], t["route"]))
            if not inflight or step >= N:
                break
            idx = 1 if (len(inflight) > 1 and choose(sched[step])) else 0
            tid, r = inflight.pop(idx)
            st = statuses.SUCCEEDED if choose(ok[step]) else statuses.FAILED
            res = {}
            if "a" in REFS[tid]: res["a"] = choose(ra[step])
            if "b" in REFS[tid]: res["b"] = choose(rb[step])
            c.update_task_state(tid, r, events.ActionExecutionEvent(st, result=res))
            step += 1
        s = c.get_workflow_status()
        assert not (s == "running" and not inflight)
        return s

# warm-up (plugin loading) outside the analysis
_c = conducting.WorkflowConductor(SPEC); _c.request_workflow_status(statuses.RUNNING); _t = _c.get_next_tasks()
_c.update_task_state("t1", 0, events.ActionExecutionEvent(statuses.RUNNING)); _c.update_task_state("t1", 0, events.ActionExecutionEvent(statuses.SUCCEEDED, result={"a": True, "b": True}))
