from nat import *
import json
WF = """
version: 1.0
input:
  - xs
tasks:
  s:
    action: core.noop
    next:
      - do: a, w
  a:
    action: core.noop
  w:
    with:
      items: <% ctx().xs %>
      concurrency: 1
    action: core.echo message=<% item() %>
"""
c, errs = mk(WF, {"xs": [1, 2]}); print("inspect", errs)
start(c); done(c, "s")
for t in c.get_next_tasks():
    if t["id"] == "a":
        c.update_task_state("a", 0, events.ActionExecutionEvent(statuses.RUNNING))
    else:
        for a_ in t["actions"]:
            c.update_task_state("w", 0, events.TaskItemActionExecutionEvent(a_["item_id"], statuses.RUNNING))
done(c, "a", st=statuses.FAILED)
print("status", c.get_workflow_status(), seq(c))
before = json.dumps(c.serialize()["state"], sort_keys=True)
for req in (statuses.PAUSING, statuses.RUNNING, statuses.RESUMING, statuses.CANCELING):
    try:
        c.request_workflow_status(req); print(req, "accepted ->", c.get_workflow_status())
    except Exception as e:
        after = json.dumps(c.serialize()["state"], sort_keys=True)
        print(req, "rejected:", type(e).__name__, "| state unchanged:", before == after, seq(c))
        before = after
