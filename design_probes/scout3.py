"""Scouting probe 3: retry (C13) then rerun (C17) in choice-point mode."""
import logging
logging.disable(logging.CRITICAL)
from crosshair.tracers import NoTracing
from scout import cb, ci, KnownFinding
from orquesta import conducting, events, statuses as S
from orquesta.specs import native as native_specs

WF = """
version: 1.0
tasks:
  a:
    action: core.noop
    retry:
      count: 2
      delay: 3
    next:
      - when: <% succeeded() %>
        publish: pa=1
        do: b
  x:
    action: core.noop
    next:
      - when: <% succeeded() %>
        do: y
  b:
    action: core.noop
  y:
    action: core.noop
output:
  - pa: <% ctx().pa %>
"""
SPEC = native_specs.WorkflowSpec(WF)
STEPS = 7
def drive(r, o, k, p, do_rerun):
    c = conducting.WorkflowConductor(SPEC)
    c.request_workflow_status(S.RUNNING)
    inflight = []; log = []; step = 0
    execs = {}; last_a = None; a_attempts = 0; a_open = False
    ctl = ci(k, 3); pos = ci(p, STEPS) if ctl else None
    paused_req = cancel_req = False; rerun_done = False; succeeded_before = set(); nctx = 0
    def offers():
        nonlocal a_attempts
        nt = c.get_next_tasks(); st = c.get_workflow_status()
        for t in nt:
            if st in (S.PAUSING, S.PAUSED): assert False, "C09 offer while %s %s" % (st, log)
            if cancel_req: assert False, "C10 offer after cancel %s" % log
            assert (t["id"]) not in [i for i in inflight], "offered while in flight %s %s" % (t["id"], log)
            if t["id"] == "a":
                if a_attempts > 0 and not rerun_done:
                    assert last_a is False, "C13 a re-offered although last attempt did not fail %s" % log
                    assert t.get("delay") == 3, "C13 retry delay %r %s" % (t.get("delay"), log)
                a_attempts += 1
                assert a_attempts <= 3 or rerun_done, "C13 more than count+1 attempts %s" % log
            if t["id"] == "b":
                assert last_a is True, "C13/C01 b offered without a succeeded attempt %s" % log
            if rerun_done:
                assert t["id"] not in succeeded_before or t["id"] in ("b", "y"), "C17 re-executing completed %s %s" % (t["id"], log)
            execs[t["id"]] = execs.get(t["id"], 0) + 1
            c.update_task_state(t["id"], t["route"], events.ActionExecutionEvent(S.RUNNING))
            inflight.append(t["id"]); log.append("+%s" % t["id"])
    def check():
        st = c.get_workflow_status()
        if st in (S.PAUSED, S.CANCELED, S.SUCCEEDED): assert not inflight, "C02 %s with in-flight %s" % (st, log)
        if st in (S.PAUSING, S.CANCELING): assert inflight, "C02 %s with nothing in flight %s" % (st, log)
        if cancel_req: assert st in (S.CANCELING, S.CANCELED), "C10 %s after cancel %s" % (st, log)
    offers(); check()
    while step < STEPS:
        if ctl and pos == step and not paused_req and not cancel_req and c.get_workflow_status() in (S.RUNNING, S.RESUMING):
            if ctl == 1: c.request_workflow_status(S.PAUSING); paused_req = True; log.append("PAUSE")
            else: c.request_workflow_status(S.CANCELING); cancel_req = True; log.append("CANCEL")
            check(); offers()
        if not inflight:
            st = c.get_workflow_status()
            if paused_req and st == S.PAUSED:
                c.request_workflow_status(S.RESUMING); paused_req = False; log.append("RESUME")
                offers(); check()
                if inflight: continue
            st = c.get_workflow_status()
            assert st in (S.SUCCEEDED, S.FAILED, S.CANCELED, S.PAUSED), "C03 quiescent in %s %s" % (st, log)
            if st == S.FAILED and do_rerun and not rerun_done:
                succeeded_before = {e["id"] for e in c.workflow_state.sequence if e.get("status") == S.SUCCEEDED}
                c.request_workflow_rerun(); rerun_done = True; log.append("RERUN")
                assert c.get_workflow_status() == S.RESUMING, "C17 status after rerun %s" % c.get_workflow_status()
                offers(); check()
                assert inflight, "C17 accepted rerun left nothing to do in %s %s" % (c.get_workflow_status(), log)
                continue
            break
        idx = ci(r[step], len(inflight)) if len(inflight) > 1 else 0
        tid = inflight.pop(idx)
        ok = True if rerun_done else cb(o[step])
        nctx = len(c.workflow_state.contexts)
        c.update_task_state(tid, 0, events.ActionExecutionEvent(S.SUCCEEDED if ok else S.FAILED))
        log.append("-%s:%s" % (tid, "ok" if ok else "fail"))
        if tid == "a":
            last_a = ok
            e = c.get_task_state_entry("a", 0)
            if e.get("status") == S.RETRYING:
                assert not ok, "C13 retrying a succeeded attempt %s" % log
                assert e["next"] == {} and len(c.workflow_state.contexts) == nctx, "C13 transition/publish fired for a retried attempt %s" % log
        step += 1
        check(); offers(); check()
    st = c.get_workflow_status()
    if rerun_done and st not in (S.RESUMING, S.RUNNING) and not inflight:
        assert st == S.SUCCEEDED, "C17 rerun with all actions succeeding ended %s %s" % (st, log)
        c.render_workflow_output()
        assert c.get_workflow_output() == {"pa": 1}, "C17 output %s %s" % (c.get_workflow_output(), log)
        pass
    return st
def scout_retry(r0: int, r1: int, r2: int, r3: int, r4: int, r5: int, r6: int, o0: bool, o1: bool, o2: bool, o3: bool, o4: bool, o5: bool, o6: bool, k: int, p: int) -> str:
    """
    pre: all(0 <= x < 3 for x in (r0, r1, r2, r3, r4, r5, r6)) and 0 <= k < 3 and 0 <= p < STEPS
    post: True
    """
    with NoTracing():
        return drive([r0, r1, r2, r3, r4, r5, r6], [o0, o1, o2, o3, o4, o5, o6], k, p, False)
def scout_rerun(r0: int, r1: int, r2: int, r3: int, r4: int, r5: int, r6: int, o0: bool, o1: bool, o2: bool, o3: bool, o4: bool, o5: bool, o6: bool) -> str:
    """
    pre: all(0 <= x < 3 for x in (r0, r1, r2, r3, r4, r5, r6))
    post: True
    """
    with NoTracing():
        return drive([r0, r1, r2, r3, r4, r5, r6], [o0, o1, o2, o3, o4, o5, o6], 0, 0, True)
STEPS = 7
drive([0]*7, [True]*7, 0, 0, False)
