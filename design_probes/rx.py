import re, time
import re._parser as sp, re._constants as sc
import z3
from orquesta.utils import parameters as P

ASCII = [chr(i) for i in range(32, 127)]
def ch(c): return z3.Re(z3.StringVal(c))
def anychar(): return z3.Range(" ", "~")
def cat_(cat):
    if cat == sc.CATEGORY_DIGIT: return z3.Range("0","9")
    if cat == sc.CATEGORY_SPACE: return z3.Union(ch(" "), ch("\t")) if False else ch(" ")
    if cat == sc.CATEGORY_WORD: return z3.Union(z3.Range("a","z"), z3.Range("A","Z"), z3.Range("0","9"), ch("_"))
    raise NotImplementedError(cat)
def tr(items, icase=False):
    parts = []
    for op, av in items:
        if op is sc.LITERAL:
            c = chr(av)
            parts.append(z3.Union(ch(c.lower()), ch(c.upper())) if icase and c.isalpha() else ch(c))
        elif op is sc.NOT_LITERAL:
            parts.append(z3.Intersect(anychar(), z3.Complement(ch(chr(av)))))
        elif op is sc.ANY:
            parts.append(anychar())
        elif op is sc.IN:
            neg = False; alts = []
            for o, a in av:
                if o is sc.NEGATE: neg = True
                elif o is sc.LITERAL: alts.append(ch(chr(a)))
                elif o is sc.RANGE: alts.append(z3.Range(chr(a[0]), chr(a[1])))
                elif o is sc.CATEGORY: alts.append(cat_(a))
                else: raise NotImplementedError(o)
            u = alts[0] if len(alts) == 1 else z3.Union(*alts)
            parts.append(z3.Intersect(anychar(), z3.Complement(u)) if neg else u)
        elif op in (sc.MAX_REPEAT, sc.MIN_REPEAT):
            lo, hi, sub = av
            r = tr(sub, icase)
            if hi is sc.MAXREPEAT:
                parts.append(z3.Star(r) if lo == 0 else z3.Concat(*([r]*lo + [z3.Star(r)])) if lo > 1 else z3.Plus(r))
            elif (lo, hi) == (0, 1): parts.append(z3.Option(r))
            else: parts.append(z3.Loop(r, lo, hi))
        elif op is sc.SUBPATTERN:
            grp, add, dele, sub = av
            parts.append(tr(sub, icase or bool(add & re.I)))
        elif op is sc.BRANCH:
            parts.append(z3.Union(*[tr(b, icase) for b in av[1]]))
        else:
            raise NotImplementedError(op)
    if not parts: return z3.Re(z3.StringVal(""))
    return parts[0] if len(parts) == 1 else z3.Concat(*parts)

alts = P.REGEX_INLINE_PARAM_VARIATIONS
R = [tr(sp.parse(a)) for a in alts]
print(len(R), "alternatives translated from the live module")
# Query: a canonical integer value "k=<int>" followed by end or space is captured by the INTEGER alternative
# unless an earlier alternative matches a prefix: ask z3 for an integer literal that some earlier alternative prefix-matches.
v = z3.String("v")
INT = z3.Concat(z3.Option(ch("-")), z3.Union(ch("0"), z3.Concat(z3.Range("1","9"), z3.Star(z3.Range("0","9")))))
idx_int = alts.index(P.REGEX_INTEGER)
s = z3.Solver(); s.add(z3.InRe(v, INT), z3.Length(v) <= 8)
prefix_any = z3.Star(anychar())
s.add(z3.Or(*[z3.InRe(v, z3.Concat(R[j], prefix_any)) for j in range(idx_int)]))
t = time.time(); print("earlier alternative steals an int literal:", s.check(), round(time.time()-t,3), "s")
# sanity (must be sat): a float literal's prefix IS matched by the integer alternative -> order matters
s2 = z3.Solver(); FL = z3.Concat(z3.Option(ch("-")), z3.Plus(z3.Range("0","9")), ch("."), z3.Plus(z3.Range("0","9")))
s2.add(z3.InRe(v, FL), z3.Length(v) <= 8, z3.InRe(v, z3.Concat(R[idx_int], prefix_any)))
t = time.time(); r = s2.check(); print("int alt prefix-matches a float literal:", r, s2.model()[v] if str(r)=="sat" else None, round(time.time()-t,3), "s")
# differential validation of the translation against re on concrete strings
import itertools, random
random.seed(1); bad = 0; n = 0
pool = ['-5','007','1.5','"a b"',"'q'",'true','FALSE','null','<% ctx().a %>','{{ x }}','[1, 2]','abc','-','1x','.5','""']
for w in pool:
    for j, a in enumerate(alts):
        n += 1
        m = re.fullmatch(a, w) is not None
        sm = z3.Solver(); sm.add(z3.InRe(z3.StringVal(w), R[j]))
        if (str(sm.check()) == "sat") != m: bad += 1; print("MISMATCH", a, w)
print("differential", n, "checks", bad, "mismatches")
