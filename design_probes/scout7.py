"""Scouting probe 7: causal-context oracle (C06) with taint tokens, choice-point mode."""
import logging
logging.disable(logging.CRITICAL)
from crosshair.tracers import NoTracing
from scout import cb, ci, KnownFinding
from orquesta import conducting, events, statuses as S
from orquesta.specs import native as native_specs

# transitions: (cond, publishes {var: token-source}, targets). token = "<task>.<k>.<var>" made unique per visit via result payload.
DEFS = {
 "P13": {"s": [("any", ["x"], ["a", "b"])], "a": [("ok", ["x"], ["j"]), ("fail", [], ["j"])], "b": [("any", [], ["j"])], "j": "join", "out": ["x"]},
 "P04": {"s": [("any", ["x", "y"], ["a", "b"])], "a": [("any", ["x"], ["j"])], "b": [("any", ["y", "z"], ["j"])], "j": "join", "out": ["x", "y", "z"]},
 "P06": {"s": [("any", ["x"], ["a", "b"])], "a": [("any", ["y"], ["m"])], "b": [("any", ["x"], ["m"])], "m": [("any", ["w"], ["n"])], "n": [], "out": []},
 "P03": {"s": [("ok", ["x"], ["a"]), ("fail", ["y"], ["b"])], "a": [("any", ["z"], ["c"])], "b": [("any", [], ["c"])], "c": [], "out": []},
}
def to_spec(d):
    tasks = {}
    for n, t in d.items():
        if n == "out": continue
        ts = {"action": "core.echo", "input": {"seen": "<% ctx() %>"}}
        trs = [] if t == "join" else t
        if t == "join": ts["join"] = "all"
        nx = []
        for k, (cond, pubs, do) in enumerate(trs):
            tr = {"do": do}
            if cond == "ok": tr["when"] = "<% succeeded() %>"
            if cond == "fail": tr["when"] = "<% failed() %>"
            if pubs: tr["publish"] = [{v: "<% result().get(t" + str(k) + "_" + v + ") %>"} for v in pubs]
            nx.append(tr)
        if nx: ts["next"] = nx
        tasks[n] = ts
    out = [{v: "<% ctx().get(" + v + ") %>"} for v in d.get("out", [])]
    w = {"version": 1.0, "vars": [{"x": "init"}], "tasks": tasks}
    if out: w["output"] = out
    return native_specs.WorkflowSpec(w)
SPECS = {k: to_spec(v) for k, v in DEFS.items()}
for k, sp in SPECS.items():
    assert sp.inspect() == {}, (k, sp.inspect())

class B(object):   # a binding: token + the publish ids (of the same variable) its publisher had received
    def __init__(self, tok, pid, seen): self.tok = tok; self.pid = pid; self.seen = seen
def merge(cur, nb):
    if cur is None or nb.pid == cur.pid: return nb if cur is None else cur
    if cur.pid in nb.seen: return nb          # nb supersedes what cur carries
    if nb.pid in cur.seen: return cur         # nb merely inherited an older value
    return nb                                 # independent: later arrival wins

def run(name, r, o):
    d = DEFS[name]
    c = conducting.WorkflowConductor(SPECS[name]); c.request_workflow_status(S.RUNNING)
    init = {"x": B("init", 0, frozenset())}
    ctx_of = {}          # (task, route) -> oracle ctx for the execution about to run / running
    join_acc = {}; pid = [0]; inflight = []; log = []; step = 0
    for n in d:
        if n != "out" and not any(n in do for nn, t in d.items() if nn != "out" and isinstance(t, list) for _, _, do in t):
            ctx_of[(n, None)] = dict(init)
    pending = {}         # task id -> list of oracle ctxs due (non-join), matched to offers in order
    for (n, _), v in list(ctx_of.items()): pending.setdefault(n, []).append(v)
    def visible(octx): return {k: b.tok for k, b in octx.items()}
    def offers():
        for t in c.get_next_tasks():
            got = {k: v for k, v in t["ctx"].items() if not k.startswith("__")}
            cands = pending.get(t["id"], [])
            match = [x for x in cands if visible(x) == got]
            if not match:
                for x in cands:   # F5 signature: engine shows a value whose publish the expected value had superseded
                    for var, tok in got.items():
                        if var in x and x[var].tok != tok:
                            olds = [pp for pp in PUBS if PUBS[pp] == tok]
                            if olds and olds[0] in x[var].seen and d.get(t["id"]) == "join":
                                raise KnownFinding("F5 join %s var %s shows superseded %s instead of %s" % (t["id"], var, tok, x[var].tok))
                assert False, "C06 %s sees %s, oracle expects one of %s %s" % (t["id"], got, [visible(x) for x in cands], log)
            cands.remove(match[0])
            c.update_task_state(t["id"], t["route"], events.ActionExecutionEvent(S.RUNNING))
            inflight.append((t["id"], t["route"], match[0])); log.append("+%s/%d" % (t["id"], t["route"]))
    PUBS = {0: "init"}
    offers()
    while inflight and step < 7:
        idx = ci(r[step], len(inflight)) if len(inflight) > 1 else 0
        tid, rt, octx = inflight.pop(idx)
        ok = cb(o[step]); step += 1
        trs = [] if d[tid] == "join" else d[tid]
        result = {}
        for k, (cond, pubs, do) in enumerate(trs):
            for v in pubs:
                result["t%d_%s" % (k, v)] = "%s#%d.%d.%s" % (tid, step, k, v)
        c.update_task_state(tid, rt, events.ActionExecutionEvent(S.SUCCEEDED if ok else S.FAILED, result=result))
        log.append("-%s:%s" % (tid, "ok" if ok else "fail"))
        for k, (cond, pubs, do) in enumerate(trs):
            if not {"any": True, "ok": ok, "fail": not ok}[cond]: continue
            published = dict(octx)     # one publish event per satisfied transition and variable, shared by all its targets
            for v in pubs:
                pid[0] += 1
                old = published.get(v)
                seen = frozenset() if old is None else frozenset({old.pid}) | old.seen
                published[v] = B(result["t%d_%s" % (k, v)], pid[0], seen); PUBS[pid[0]] = published[v].tok
            for tgt in do:
                child = dict(published)
                if d[tgt] == "join":
                    acc = join_acc.setdefault(tgt, {"ctx": {}, "n": 0})
                    for v, b in child.items():
                        acc["ctx"][v] = merge(acc["ctx"].get(v), b)
                    acc["n"] += 1
                    inb = {p for p, t in d.items() if p != "out" and isinstance(t, list) for _, _, do2 in t if tgt in do2}
                    if acc["n"] == len(inb):
                        pending.setdefault(tgt, []).append(acc["ctx"])
                else:
                    pending.setdefault(tgt, []).append(child)
        if c.get_workflow_status() == S.FAILED:
            return "failed"
        offers()
    return c.get_workflow_status()
def run_safe(name, r, o):
    try:
        return run(name, r, o)
    except KnownFinding as e:
        return "known:" + str(e)
SIG = "r0: int, r1: int, r2: int, r3: int, r4: int, r5: int, r6: int, o0: bool, o1: bool, o2: bool, o3: bool, o4: bool, o5: bool, o6: bool"
src = []
for name in DEFS:
    src.append('def ctx_%s(%s):\n    """\n    pre: all(0 <= x < 3 for x in (r0, r1, r2, r3, r4, r5, r6))\n    post: True\n    """\n    with NoTracing():\n        return run_safe("%s", [r0, r1, r2, r3, r4, r5, r6], [o0, o1, o2, o3, o4, o5, o6])\n' % (name, SIG, name))
exec("\n".join(src))
for name in DEFS:
    print(name, run_safe(name, [0] * 7, [True] * 7), run_safe(name, [1] * 7, [True] * 7))
if __name__ == "__main__":
    open("/tmp/pa/scout7_gen.py", "w").write("from scout7 import *\n" + "\n".join(src))
