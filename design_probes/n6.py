from nat import *
def drive(c, outcomes=None, order=None, maxsteps=30):
    """lock-step FIFO drive; outcomes: dict task-> list of (status, result) per visit"""
    outcomes = outcomes or {}; seen = {}
    inflight = []; log = []
    for _ in range(maxsteps):
        for t in c.get_next_tasks():
            c.update_task_state(t["id"], t["route"], events.ActionExecutionEvent(statuses.RUNNING)); inflight.append((t["id"], t["route"]))
            log.append("+%s/%d" % (t["id"], t["route"]))
        if not inflight: break
        tid, r = inflight.pop(0)
        k = seen.get(tid, 0); seen[tid] = k + 1
        st, res = (outcomes.get(tid) or [(statuses.SUCCEEDED, None)])[min(k, len(outcomes.get(tid, [0]))-1)] if tid in outcomes else (statuses.SUCCEEDED, None)
        c.update_task_state(tid, r, events.ActionExecutionEvent(st, result=res)); log.append("-%s/%d:%s" % (tid, r, st[:4]))
    return log
print("== D06 split: x multi-referenced, no join")
c,e = mk("""
version: 1.0
tasks:
  s:
    action: core.noop
    next:
      - do: a, b
  a:
    action: core.noop
    next:
      - do: x
  b:
    action: core.noop
    next:
      - do: x
  x:
    action: core.noop
    next:
      - do: y
  y:
    action: core.noop
"""); print(e, drive(c), c.get_workflow_status(), c.workflow_state.routes)
print("== D07 run-on-fail")
WF7 = """
version: 1.0
tasks:
  a:
    action: core.noop
    next:
      - when: <% failed() %>
        do: cleanup, fail
      - when: <% succeeded() %>
        do: b
  cleanup:
    action: core.noop
    next:
      - do: after
  after:
    action: core.noop
  b:
    action: core.noop
"""
c,e = mk(WF7); print(e, drive(c, {"a": [(statuses.FAILED, None)]}), c.get_workflow_status(), seq(c))
print("== D15 parallel edges a->b twice")
c,e = mk("""
version: 1.0
tasks:
  a:
    action: core.noop
    next:
      - when: <% result().c0 %>
        do: b
      - when: <% result().c1 %>
        do: b
  b:
    action: core.noop
"""); print(e, drive(c, {"a": [(statuses.SUCCEEDED, {"c0": True, "c1": True})]}), c.get_workflow_status(), seq(c), c.workflow_state.routes)
print("== D15b same target twice in one do list / duplicate do")
c,e = mk("""
version: 1.0
tasks:
  a:
    action: core.noop
    next:
      - do: b
      - do: b
  b:
    action: core.noop
"""); print(e, drive(c), c.get_workflow_status(), seq(c))
print("== D09 loop")
c,e = mk("""
version: 1.0
vars:
  - i: 0
tasks:
  init:
    action: core.noop
    next:
      - do: a
  a:
    action: core.noop
    next:
      - publish: i=<% ctx().i + 1 %>
        do: b
  b:
    action: core.noop
    next:
      - when: <% ctx().i < 2 %>
        do: a
      - when: <% ctx().i >= 2 %>
        do: c
  c:
    action: core.noop
"""); print(e, drive(c), c.get_workflow_status(), [x[0] for x in seq(c)])
