"""CrossHair entry point and in-process analysis of one obligation.

`entry` is the only contract-bearing function for choice-point (E2c) harnesses: its body
runs the configured harness natively (NoTracing) with a SymbolicChooser, so the only
symbolic decisions are the environment's. CrossHair explores every solver-feasible
combination of decisions; "Confirmed over all paths" therefore means that no history
within the harness's bound violates its monitors.
"""
import importlib
import json
import os
import sys
import time
import traceback

import vt  # noqa: F401

from crosshair.tracers import NoTracing

STATE = {
    "body": None,
    "params": {},
    "fixed": {},
    "known": {},
    "paths": 0,
    "choices_max": 0,
    "choices_total": 0,
    "cex": None,
    "harness_error": None,
    "known_hits": {},
    "counters": {},
    "samples": [],
    "sample_every": 1,
    "distinct": set(),
}


class HarnessProblem(Exception):
    pass


def _one_path():
    from vt.choice import SliceSkip, SymbolicChooser
    from vt.env import Violation

    st = STATE
    st["paths"] += 1
    ch = SymbolicChooser(fixed=st["fixed"], slice_=st.get("slice"))
    ctx = {"counters": {}, "summary": None}
    try:
        try:
            ctx["summary"] = st["body"](ch, ctx, **st["params"])
        finally:
            st["choices_max"] = max(st["choices_max"], ch.count)
            st["choices_total"] += ch.count
            for k, v in ctx["counters"].items():
                st["counters"][k] = st["counters"].get(k, 0) + v
    except SliceSkip:
        st["skipped"] = st.get("skipped", 0) + 1
        return
    except Violation as v:
        sig = v.signature()
        if _is_known(sig):
            st["known_hits"][sig] = st["known_hits"].get(sig, 0) + 1
            return
        st["cex"] = {
            "decisions": ch.log,
            "violation": {"prop": v.prop, "monitor": v.monitor, "message": v.msg, "signature": sig},
        }
        raise AssertionError("VIOLATION " + v.msg)
    except Exception as e:
        st["harness_error"] = {
            "decisions": ch.log,
            "error": "%s: %s" % (type(e).__name__, e),
            "traceback": traceback.format_exc(),
        }
        raise AssertionError("HARNESS-ERROR " + str(e))
    s = ctx["summary"]
    if s is not None:
        key = json.dumps(s, sort_keys=True, default=str)
        if key not in st["distinct"]:
            st["distinct"].add(key)
            if len(st["samples"]) < 5:
                st["samples"].append(s)


def _is_known(sig):
    for k in STATE["known"]:
        if sig == k:
            return True
    return False


def entry(seed: int) -> None:
    """
    post: True
    """
    with NoTracing():
        _one_path()


def resolve(ref):
    mod, fn = ref.split(":")
    return getattr(importlib.import_module(mod), fn)


def install_solver_counter():
    import z3

    stats = {"calls": 0, "seconds": 0.0}
    orig = z3.Solver.check

    def check(self, *a):
        with NoTracing():
            t = time.perf_counter()
        try:
            return orig(self, *a)
        finally:
            with NoTracing():
                stats["calls"] += 1
                stats["seconds"] += time.perf_counter() - t

    z3.Solver.check = check
    return stats


def analyze(ob):
    """Run one obligation in this process and return its result dict."""
    from crosshair.core_and_libs import AnalysisKind, analyze_function, run_checkables
    from crosshair.options import AnalysisOptionSet

    solver = install_solver_counter()
    t0 = time.time()
    res = {"id": ob["id"], "kind": ob["kind"], "body": ob["body"], "params": ob.get("params", {}), "fixed": ob.get("fixed", {})}
    timeout = float(ob.get("timeout", 300))
    opts = AnalysisOptionSet(
        analysis_kind=[AnalysisKind.PEP316],
        per_condition_timeout=timeout,
        per_path_timeout=float(ob.get("path_timeout", 120)),
        max_uninteresting_iterations=10 ** 9,
        report_all=True,
    )
    if ob["kind"] == "e3":
        # direct z3 encodings regenerated from the live module; the body runs its own queries
        out = resolve(ob["body"])(ob)
        res.update(out)
        res["solver_calls"] = max(solver["calls"], out.get("queries", 0))
        res["solver_s"] = round(solver["seconds"], 3)
        res["wall_s"] = round(time.time() - t0, 3)
        return res
    if ob["kind"] == "e2c":
        STATE["body"] = resolve(ob["body"])
        STATE["params"] = ob.get("params", {})
        STATE["fixed"] = ob.get("fixed", {})
        STATE["known"] = ob.get("known", {})
        STATE["slice"] = tuple(ob["slice"]) if ob.get("slice") else None
        # warm-up natively (plugin loading, spec compilation) and as a concrete smoke run
        from vt.choice import ReplayChooser
        from vt.env import Violation

        try:
            STATE["body"](ReplayChooser({}, fixed=STATE["fixed"]), {"counters": {}}, **STATE["params"])
        except Violation as v:
            if not _is_known(v.signature()):
                res.update(
                    verdict="counterexample",
                    cex={"decisions": [], "violation": {"prop": v.prop, "monitor": v.monitor, "message": v.msg, "signature": v.signature()}},
                    paths=0, solver_calls=0, solver_s=0.0, wall_s=time.time() - t0, message="monitor fired in the concrete warm-up run",
                )
                return res
        fn = entry
    else:
        fn = resolve(ob["body"])
        import vt.lemma as lemma

        lemma.CEX.clear()
    msgs = list(run_checkables(analyze_function(fn, opts)))
    states = [m.state.name for m in msgs]
    res["messages"] = [[m.state.name, m.message[:400]] for m in msgs]
    res["paths"] = STATE["paths"]
    res["choices_max"] = STATE["choices_max"]
    res["choices_total"] = STATE["choices_total"]
    res["solver_calls"] = solver["calls"]
    res["solver_s"] = round(solver["seconds"], 3)
    res["wall_s"] = round(time.time() - t0, 3)
    res["known_hits"] = STATE["known_hits"]
    res["counters"] = STATE["counters"]
    res["samples"] = STATE["samples"]
    res["distinct"] = len(STATE["distinct"])
    res["skipped_other_slice"] = STATE.get("skipped", 0)
    if ob["kind"] == "e2c":
        if STATE["harness_error"]:
            res["verdict"] = "error"
            res["error"] = STATE["harness_error"]
        elif STATE["cex"]:
            res["verdict"] = "counterexample"
            res["cex"] = STATE["cex"]
        elif states and all(s == "CONFIRMED" for s in states):
            res["verdict"] = "confirmed"
        else:
            res["verdict"] = "inconclusive"
    else:
        import vt.lemma as lemma

        res["paths"] = lemma.PATHS[0]
        if lemma.CEX:
            res["verdict"] = "counterexample"
            res["cex"] = dict(lemma.CEX)
        elif states and all(s == "CONFIRMED" for s in states):
            res["verdict"] = "confirmed"
        elif any(s in ("POST_FAIL", "EXEC_ERR", "POST_ERR") for s in states):
            res["verdict"] = "counterexample"
            res["cex"] = {"args": None, "message": "; ".join(m.message[:300] for m in msgs)}
        else:
            res["verdict"] = "inconclusive"
    return res


def main():
    ob = json.loads(open(sys.argv[1]).read())
    out = sys.argv[2]
    try:
        res = analyze(ob)
    except BaseException as e:  # noqa
        res = {"id": ob["id"], "verdict": "error", "error": {"error": "%s: %s" % (type(e).__name__, e), "traceback": traceback.format_exc()}}
    tmp = out + ".tmp"
    with open(tmp, "w") as f:
        json.dump(res, f, default=str)
    os.replace(tmp, out)


if __name__ == "__main__":
    main()
