"""Environment choice points.

A harness never looks at a symbolic value directly. It asks a Chooser, which under
CrossHair creates a fresh z3-backed variable the first time a key is consulted and
resolves the question *inside the tracer* so that the solver decides which alternatives
are feasible and CrossHair's search tree proves that all of them were explored. The
engine under test runs outside the tracer (NoTracing), natively and unmodified.

Every resolved decision is logged as [key, value]; the log of a failing path is the
counterexample, and ReplayChooser feeds it back to the same harness natively.
"""
import re


class SliceSkip(Exception):
    """This path belongs to another slice of the same obligation."""


class ChoiceExhausted(Exception):
    """A harness consulted more choice points than its stated bound allows."""


class LazyInt(object):
    """An integer whose value is only constrained by the comparisons made so far."""

    def __init__(self, chooser, key):
        self.chooser = chooser
        self.key = key
        self.value = None  # resolved value, once some comparison came back true
        self.excluded = []

    def is_(self, v):
        if self.value is not None:
            return self.value == v
        if v in self.excluded:
            return False
        if self.chooser._lazy_eq(self, v):
            self.value = v
            self.chooser.log.append([self.key, v])
            return True
        self.excluded.append(v)
        return False


class BaseChooser(object):
    symbolic = False

    def __init__(self, fixed=None):
        self.log = []
        self.fixed = dict(fixed or {})
        self._memo = {}
        self._lazy = {}
        self.count = 0

    # -- public API -------------------------------------------------------------------
    def flag(self, key):
        """A boolean decided once per key."""
        if key in self._memo:
            return self._memo[key]
        if key in self.fixed:
            v = bool(self.fixed[key])
        else:
            v = self._new_flag(key)
            self.count += 1
        self._memo[key] = v
        self.log.append([key, v])
        return v

    def pick(self, key, n):
        """An integer in range(n) decided once per key."""
        if key in self._memo:
            return self._memo[key]
        if n <= 1:
            return 0
        if key in self.fixed:
            v = int(self.fixed[key])
            if v >= n:
                v = n - 1
        else:
            v = self._new_pick(key, n)
            self.count += 1
        self._memo[key] = v
        self.log.append([key, v])
        return v

    def lazy(self, key):
        """An integer compared lazily (LazyInt.is_); unconstrained until compared."""
        if key not in self._lazy:
            li = LazyInt(self, key)
            if key in self.fixed:
                li.value = self.fixed[key] if self.fixed[key] is not None else -1
            self._lazy[key] = li
        return self._lazy[key]

    def decisions(self):
        d = {}
        for k, v in self.log:
            d[k] = v
        return d


class ReplayChooser(BaseChooser):
    """Feeds recorded decisions back; anything not recorded takes the default."""

    def __init__(self, decisions, fixed=None, strict=False):
        super(ReplayChooser, self).__init__(fixed)
        self.decisions_in = dict(decisions)
        self.strict = strict
        self.missing = []

    def _get(self, key, default):
        if key in self.decisions_in:
            return self.decisions_in[key]
        self.missing.append(key)
        if self.strict:
            raise KeyError("replay has no decision for %r" % key)
        return default

    def _new_flag(self, key):
        return bool(self._get(key, False))

    def _new_pick(self, key, n):
        v = int(self._get(key, 0))
        return v if v < n else n - 1

    def _lazy_eq(self, li, v):
        want = self.decisions_in.get(li.key, None)
        return want is not None and want == v


class SymbolicChooser(BaseChooser):
    """Backed by fresh CrossHair proxies; must be used from inside NoTracing()."""

    symbolic = True

    def __init__(self, fixed=None, limit=400, slice_=None):
        super(SymbolicChooser, self).__init__(fixed)
        self.limit = limit
        self._vars = {}
        # slice_ = (index, count, depth): the space is partitioned by a hash of the first
        # `depth` solver decisions; each worker completes only the paths of its own slice
        self.slice = slice_
        self._prefix = []

    def _sliced(self, v):
        if self.slice is None or len(self._prefix) >= self.slice[2]:
            return
        self._prefix.append(int(v))
        if len(self._prefix) == self.slice[2]:
            h = 0
            for i, x in enumerate(self._prefix):
                h = (h * 31 + x * (i + 7) + 3) % 1000003
            if h % self.slice[1] != self.slice[0]:
                raise SliceSkip()

    def _name(self, key):
        return "c_" + re.sub(r"[^A-Za-z0-9_]", "_", str(key))

    def _bump(self):
        if self.count >= self.limit:
            raise ChoiceExhausted("more than %d choice points" % self.limit)

    def _new_flag(self, key):
        from crosshair.core import proxy_for_type
        from crosshair.tracers import ResumedTracing

        self._bump()
        with ResumedTracing():
            b = proxy_for_type(bool, self._name(key))
            v = True if b else False
        self._sliced(v)
        return v

    def _new_pick(self, key, n):
        from crosshair.core import proxy_for_type
        from crosshair.tracers import ResumedTracing

        self._bump()
        v = n - 1
        with ResumedTracing():
            x = proxy_for_type(int, self._name(key))
            for i in range(n - 1):
                if x == i:
                    v = i
                    break
        self._sliced(v)
        return v

    def _lazy_eq(self, li, v):
        from crosshair.core import proxy_for_type
        from crosshair.tracers import ResumedTracing

        with ResumedTracing():
            if li.key not in self._vars:
                self._bump()
                self.count += 1
                self._vars[li.key] = proxy_for_type(int, self._name(li.key))
            x = self._vars[li.key]
            r = True if x == v else False
        self._sliced(r)
        return r


class ForcedChooser(object):
    """A view of another chooser in which some decisions are forced (used for twin runs that
    share every other decision variable with the first run)."""

    def __init__(self, base, forced):
        self.base = base
        self.forced = dict(forced)
        self.symbolic = base.symbolic

    @property
    def log(self):
        return self.base.log

    def flag(self, key):
        if key in self.forced:
            return bool(self.forced[key])
        return self.base.flag(key)

    def pick(self, key, n):
        if key in self.forced:
            return int(self.forced[key])
        return self.base.pick(key, n)

    def lazy(self, key):
        return self.base.lazy(key)
