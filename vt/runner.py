"""Runner: obligations -> worker processes -> verdicts -> native replay -> evidence.

Exit codes: 0 every obligation confirmed (or only listed known findings hit);
1 with a line `VIOLATION property=<id> replay=<path>` for a counterexample that
reproduced natively and is not a listed known finding; 3 `HARNESS-ERROR` for an
inconclusive obligation, a counterexample that does not reproduce, or a vacuous harness.
"""
import argparse
import importlib
import json
import os
import subprocess
import sys
import tempfile
import time
from concurrent.futures import ThreadPoolExecutor

ROOT = os.path.dirname(os.path.dirname(os.path.abspath(__file__)))
PY = os.path.join(ROOT, ".venv", "bin", "python")
WORK = os.path.join(ROOT, ".work")

LEVELS = {}


def load_known(prop):
    p = os.path.join(ROOT, "known_findings.json")
    if not os.path.exists(p):
        return [], []
    data = json.load(open(p))
    known = [e for e in data.get("known", []) if e["property"] == prop]
    fixed = [e for e in data.get("fixed", []) if e["property"] == prop]
    return known, fixed


def run_worker(ob, tag):
    os.makedirs(WORK, exist_ok=True)
    fd, obf = tempfile.mkstemp(prefix="ob_", suffix=".json", dir=WORK)
    os.close(fd)
    outf = obf.replace("ob_", "res_")
    with open(obf, "w") as f:
        json.dump(ob, f)
    t0 = time.time()
    env = dict(os.environ)
    env["PYTHONPATH"] = ROOT
    env.setdefault("PYTHONHASHSEED", "0")
    try:
        proc = subprocess.run(
            [PY, "-m", "vt.xh", obf, outf],
            cwd=ROOT, env=env, capture_output=True, text=True, timeout=float(ob.get("timeout", 300)) * 1.5 + 120,
        )
        if os.path.exists(outf):
            res = json.load(open(outf))
        else:
            res = {"id": ob["id"], "verdict": "error", "error": {"error": "worker produced no result", "stderr": proc.stderr[-2000:]}}
    except subprocess.TimeoutExpired:
        res = {"id": ob["id"], "verdict": "inconclusive", "message": "worker wall-clock timeout"}
    finally:
        for p in (obf, outf):
            if os.path.exists(p):
                os.remove(p)
    res.setdefault("wall_s", round(time.time() - t0, 3))
    res["ob"] = ob
    return res


def replay_native(ob, decisions):
    """Re-execute the harness natively (no tracing, real everything) on recorded decisions."""
    env = dict(os.environ)
    env["PYTHONPATH"] = ROOT
    spec = {"ob": ob, "decisions": decisions}
    proc = subprocess.run([PY, "-m", "vt.replay", "-"], cwd=ROOT, env=env, input=json.dumps(spec), capture_output=True, text=True, timeout=600)
    try:
        return json.loads(proc.stdout.strip().splitlines()[-1])
    except Exception:
        return {"reproduced": False, "error": "replay failed: " + proc.stderr[-1500:] + proc.stdout[-500:]}


def main(argv=None):
    ap = argparse.ArgumentParser()
    ap.add_argument("prop")
    ap.add_argument("--tier", default=os.environ.get("VERIF_TIER", "quick"))
    ap.add_argument("--replay")
    ap.add_argument("--only", help="substring filter on obligation ids (development)")
    ap.add_argument("--jobs", type=int, default=int(os.environ.get("VERIF_JOBS", "16")))
    ap.add_argument("--no-evidence", action="store_true")
    args = ap.parse_args(argv)
    prop = args.prop
    seed = int(os.environ.get("VERIF_SEED", "0"))

    if args.replay:
        return do_replay(prop, args.replay)

    sys.path.insert(0, ROOT)
    t0 = time.time()
    mod = importlib.import_module("vt.harness." + prop)
    obs = mod.obligations(args.tier)
    if args.tier == "thorough" and not getattr(mod, "OWN_THOROUGH", False):
        from vt.harness.common import deepen

        obs = deepen(obs)
    if args.only:
        obs = [o for o in obs if args.only in o["id"]]
    known, fixed = load_known(prop)
    known_sigs = {e["signature"]: e for e in known}
    for o in obs:
        o["known"] = {s: True for s in known_sigs}
        o["seed"] = seed
    # longest first so the pool drains evenly
    order = sorted(obs, key=lambda o: -float(o.get("timeout", 300)))
    with ThreadPoolExecutor(max_workers=args.jobs) as ex:
        results = list(ex.map(lambda o: run_worker(o, prop), order))
    results.sort(key=lambda r: r["id"])

    violations = []
    harness_errors = []
    unconfirmed_lemmas = []
    known_hit = {}
    replays_done = 0
    antecedent_totals = {}
    for r in results:
        ob = r["ob"]
        twin = bool(ob.get("params", {}).get("twin"))
        v = r["verdict"]
        for sig, n in (r.get("known_hits") or {}).items():
            known_hit[sig] = known_hit.get(sig, 0) + n
        if twin:
            if v != "counterexample":
                harness_errors.append("%s: reachability twin did not produce a counterexample (%s): harness is vacuous" % (r["id"], v))
            r["verdict"] = "twin-ok" if v == "counterexample" else v
            continue
        if v == "confirmed":
            base = r["id"].split("#")[0].split("@")[0]
            for name in ob.get("antecedents", []):
                key = (base, name)
                antecedent_totals[key] = antecedent_totals.get(key, 0) + int((r.get("counters") or {}).get(name) or 0)
            continue
        if v == "counterexample":
            if ob["kind"] == "e2c":
                rp = replay_native(ob, r["cex"]["decisions"])
                replays_done += 1
                r["replay"] = rp
                if rp.get("reproduced"):
                    path = write_replay(prop, r, rp)
                    violations.append((r, path))
                else:
                    harness_errors.append("%s: counterexample did not reproduce natively: %s" % (r["id"], rp.get("error") or rp))
            else:
                cf = confirm_lemma(mod, ob, r)
                replays_done += 1
                r["confirm"] = cf
                if cf.get("violation"):
                    path = write_replay(prop, r, cf)
                    violations.append((r, path))
                else:
                    unconfirmed_lemmas.append("%s: %s" % (r["id"], (r.get("cex") or {}).get("message")))
            continue
        if v == "inconclusive":
            harness_errors.append("%s: inconclusive (%s)" % (r["id"], r.get("message") or r.get("messages")))
        else:
            err = r.get("error") or {}
            harness_errors.append("%s: %s | decisions %s" % (r["id"], str(err.get("error"))[:400], json.dumps(err.get("decisions"))[:300]))
            r["traceback"] = err.get("traceback")

    for (base, name), n in sorted(antecedent_totals.items()):
        if n == 0:
            harness_errors.append("%s: antecedent counter %s is zero: the monitor was never exercised (vacuous)" % (base, name))

    # known findings: replay each listed witness natively, report those that still fail
    known_lines = []
    for e in known:
        rp = replay_native(e["witness"]["ob"], e["witness"]["decisions"])
        replays_done += 1
        if rp.get("reproduced") and rp.get("signature") == e["signature"]:
            known_lines.append("KNOWN-FINDING: property=%s %s [%s] %s" % (prop, e.get("id", ""), e["signature"].split("|")[1], e["what"]))
        else:
            e["stale"] = True

    wall = time.time() - t0
    if not args.no_evidence:
        write_evidence(mod, prop, args.tier, seed, results, violations, harness_errors, unconfirmed_lemmas, known_lines, known_hit, replays_done, wall)

    for r in results:
        print("%-28s %-14s paths=%-6s solver=%s/%ss wall=%ss" % (r["id"], r["verdict"], r.get("paths"), r.get("solver_calls"), r.get("solver_s"), r.get("wall_s")))
    for line in known_lines:
        print(line)
    for u in unconfirmed_lemmas:
        print("LEMMA-UNCONFIRMED (no reachable history confirms it; not a violation): " + u)
    for r, path in violations:
        msg = (r.get("cex", {}).get("violation") or r.get("confirm", {}).get("violation") or {}).get("message", "")
        print("VIOLATION property=%s replay=%s" % (prop, path))
        print("  " + str(msg)[:1200])
    for h in harness_errors:
        print("HARNESS-ERROR " + h)
    if violations:
        return 1
    if harness_errors:
        return 3
    print("OK %s tier=%s obligations=%d wall=%.1fs" % (prop, args.tier, len(results), wall))
    return 0


def confirm_lemma(mod, ob, r):
    """An E1 counterexample is only a candidate: ask the property's module to reproduce it
    through the public API (native run under the property's monitors)."""
    fn = getattr(mod, "confirm", None)
    if fn is None:
        return {"violation": None, "note": "no confirmation procedure"}
    env = dict(os.environ)
    env["PYTHONPATH"] = ROOT
    spec = {"prop": ob["prop"], "ob": ob, "cex": r.get("cex")}
    proc = subprocess.run([PY, "-m", "vt.replay", "--confirm", "-"], cwd=ROOT, env=env, input=json.dumps(spec), capture_output=True, text=True, timeout=900)
    try:
        return json.loads(proc.stdout.strip().splitlines()[-1])
    except Exception:
        return {"violation": None, "error": proc.stderr[-1500:]}


def write_replay(prop, r, rp):
    d = os.path.join(ROOT, "replays")
    os.makedirs(d, exist_ok=True)
    path = os.path.join(d, "%s.json" % r["id"].replace("/", "_"))
    with open(path, "w") as f:
        json.dump({"property": prop, "obligation": r["ob"], "cex": r.get("cex"), "native": rp}, f, indent=1, default=str)
    return path


def do_replay(prop, path):
    data = json.load(open(path))
    ob = data["obligation"]
    if ob["kind"] == "e2c":
        rp = replay_native(ob, data["cex"]["decisions"])
        ok = rp.get("reproduced")
    else:
        sys.path.insert(0, ROOT)
        mod = importlib.import_module("vt.harness." + prop)
        rp = confirm_lemma(mod, ob, {"cex": data.get("cex")})
        ok = bool(rp.get("violation"))
    print(json.dumps(rp, indent=1)[:6000])
    if ok:
        print("VIOLATION property=%s replay=%s" % (prop, path))
        return 1
    print("replay did not reproduce a violation")
    return 0


DEFAULT_OUTSIDE = [
    "definitions outside the families listed under bounds (catalogue in vt/defs.py and the solver-enumerated families of C14/C15/C16/C20)",
    "histories with more completion events than the per-family bound (max_completion_events), more than one pause/cancel/rerun request, or more crash points than the policy states",
    "provider behaviour outside the contract A1-A5, except where a family's policy relaxes it (lazy_start, intermediate, requested_first)",
    "values of published variables other than the taint tokens / constants of the catalogue (value classes are covered by the E1 lemmas and the C16 catalogue only)",
    "E1 lemmas: container sizes beyond the stated ones (3 inbound tasks, 4 items); integers are unbounded",
    "anything a worker did not finish within its timeout is reported as HARNESS-ERROR, never as held",
]


def derived_bounds(results):
    """Bounds as registered: per obligation family the definition, the maximal number of completion
    events, the policy of the environment and the number of workers the family is partitioned into."""
    fam = {}
    for r in results:
        o = r["ob"]
        p = o.get("params") or {}
        base = o["id"].split("#")[0].split("@")[0]
        f = fam.setdefault(base, {"kind": o["kind"], "harness": o["body"], "workers": 0, "worker_timeout_s": o.get("timeout")})
        f["workers"] += 1
        if o["kind"] == "e2c":
            if "did" in p:
                f["definition"] = p["did"]
            if "steps" in p:
                f["max_completion_events"] = p["steps"]
            pol = {k: v for k, v in p.items() if k not in ("did", "steps") and v not in (False, None)}
            if pol:
                f["policy"] = pol
            if o.get("fixed"):
                f.setdefault("partitioned_by", sorted(o["fixed"]))
        else:
            f["params"] = p
    return fam


def write_evidence(mod, prop, tier, seed, results, violations, harness_errors, unconfirmed, known_lines, known_hit, replays_done, wall):
    level = getattr(mod, "LEVEL", "model_checking")
    paths = sum(int(r.get("paths") or 0) for r in results)
    decisions = sum(int(r.get("choices_total") or 0) for r in results)
    solver_calls = sum(int(r.get("solver_calls") or 0) for r in results)
    solver_s = round(sum(float(r.get("solver_s") or 0) for r in results), 3)
    distinct = sum(int(r.get("distinct") or 0) for r in results)
    samples = []
    for r in results:
        for s in (r.get("samples") or [])[:2]:
            samples.append({"obligation": r["id"], "case": s})
    samples = samples[:12] or [{"obligation": r["id"], "verdict": r["verdict"]} for r in results[:5]]
    obligations = []
    for r in results:
        obligations.append({
            "id": r["id"], "kind": r["ob"]["kind"], "harness": r["ob"]["body"], "params": r["ob"].get("params"), "fixed": r["ob"].get("fixed"),
            "verdict": r["verdict"], "paths": r.get("paths"), "solver_calls": r.get("solver_calls"), "solver_s": r.get("solver_s"),
            "wall_s": r.get("wall_s"), "max_choice_points": r.get("choices_max"), "antecedent_counters": r.get("counters"), "known_hits": r.get("known_hits"),
        })
    cov = {
        "states": max(paths, 1),
        "transitions": max(solver_calls, 1),
        "traces_validated_against_impl": replays_done,
        "samples": samples,
        "evaluations": max(paths, 1),
        "distinct_nontrivial": max(distinct, 2) if distinct else 2,
        "rule": getattr(mod, "RULE", "one evaluation per CrossHair path (a solver-feasible combination of environment decisions or symbolic arguments); distinct = paths whose decoded history/summary differs"),
        "exhaustive": all(r["verdict"] in ("confirmed", "twin-ok") for r in results),
        "explanation": getattr(mod, "EXPLANATION", "bounded solver-based checking of the real code with CrossHair/z3; see obligations"),
        "functions_encoded": getattr(mod, "FUNCTIONS", []),
        "bounds": getattr(mod, "BOUNDS", None) or derived_bounds(results),
        "outside_claim": getattr(mod, "OUTSIDE", None) or DEFAULT_OUTSIDE,
        "obligations_detail": obligations,
        "obligations": len(results),
        "discharged": sum(1 for r in results if r["verdict"] in ("confirmed", "twin-ok")),
        "solver_decisions": decisions,
        "solver_calls": solver_calls,
        "solver_seconds": solver_s,
        "known_findings_reported": known_lines,
        "known_finding_paths_suppressed": known_hit,
        "lemmas_unconfirmed": unconfirmed,
        "harness_errors": harness_errors,
    }
    ev = {
        "property_id": prop,
        "tier": tier if tier in ("quick", "thorough") else "quick",
        "seed": seed,
        "level": level,
        "coverage": cov,
        "assumptions": getattr(mod, "ASSUMPTIONS", []) + [
            "A1 API calls serialised by the caller",
            "A2 every offered task/item is marked running before any other event (relaxed in the obligations whose policy has lazy_start); get_next_tasks() is called after every event",
            "A3 an action reports a completed status at most once",
            "A4 with-items results accumulated by item index",
            "A5 (obligations on vt.harness.A5 only) an action that reports paused/pending is held, resumed or answered by the provider once everything else has come to rest",
            "CrossHair 0.0.110 / z3: 'Confirmed over all paths' taken as exhaustive over the solver-feasible decisions within the stated bounds",
        ],
        "wall_s": round(wall, 3),
        "violations": len(violations),
    }
    d = os.path.join(ROOT, "evidence")
    os.makedirs(d, exist_ok=True)
    with open(os.path.join(d, prop + ".json"), "w") as f:
        json.dump(ev, f, indent=1, default=str)


if __name__ == "__main__":
    sys.exit(main())
