"""Monitors over public observations, one class per property clause.

Monitors are phrased on the reported status exactly as the property is worded (never on
"a request was made", except C10 which is worded on the request). They see only what a
provider sees: get_next_tasks() answers, get_workflow_status(), serialize(), errors,
output, and the task records inside the persisted state.
"""
import json

import vt  # noqa: F401

from orquesta import statuses as S

from vt.defs import CMDS
from vt.env import COMPLETED, Monitor, RESTING
from vt.oracle import Oracle

ABENDED = (S.FAILED, S.EXPIRED, S.ABANDONED)


def count(env, name, n=1):
    c = env.counters
    c[name] = c.get(name, 0) + n


class OracleTracker(Monitor):
    """Feeds the reference semantics with the observed completions and matches every
    started execution to the Due entry (definition-level justification) it consumes."""

    def on_start(self, env):
        env.orc = Oracle(env.wf)
        env.due = env.orc.start()
        env.unjustified = []
        env.orc_stopped = False
        env.inst_route = {(): 0}

    def on_started(self, env, act):
        if act.item is not None and act.item != 0:
            # further items of a with-items execution belong to the same task execution
            for a in reversed(env.started[:-1]):
                if a.task == act.task and a.route == act.route and a.due is not None:
                    act.due = a.due
                    return
        prev = None
        for a in reversed(env.started[:-1]):
            if a.task == act.task and a.route == act.route:
                prev = a
                break
        if prev is not None and getattr(prev, "retried", False):
            act.due = prev.due
            act.attempt = getattr(prev, "attempt", 1) + 1
            return
        if prev is not None and act.item is not None and prev.item is not None and prev.due is not None and not getattr(prev, "task_done", False):
            act.due = prev.due
            return
        # an execution belongs to the instance whose route it runs on (routes are learnt from
        # the first execution of each instance)
        cands = [d for d in env.due if d.task == act.task and not d.matched and not (env.match_ctx and d.visible() != env.visible_ctx(act))]
        exact = [d for d in cands if env.inst_route.get(d.inst) == act.route]
        unbound = [d for d in cands if d.inst not in env.inst_route]
        pick = exact[0] if exact else (unbound[0] if unbound else None)
        if pick is not None:
            env.inst_route.setdefault(pick.inst, act.route)
            pick.matched = True
            act.due = pick
            return
        env.unjustified.append(act)

    def on_report(self, env, act, status, result):
        wf = env.wf
        tdef = wf.tasks.get(act.task, {})
        rec = env.c.get_task_state_entry(act.task, act.route)
        rstat = rec.get("status") if rec else None
        if act.item is not None or tdef.get("retry") or any("retry" in do for _, _, do in wf.transitions(act.task)):
            if rstat == S.RETRYING or (rstat not in COMPLETED):
                if rstat == S.RETRYING:
                    act.retried = True
                return
            tstatus = rstat
            for a in env.started:
                if a.task == act.task and a.route == act.route:
                    a.task_done = True
        else:
            tstatus = status
        if act.due is None:
            env.orc.executed.append(act.task)
            return
        ok = tstatus == S.SUCCEEDED
        bits = getattr(act, "bits", (False, False))
        tokens = {}
        if isinstance(result, dict):
            for k, (cond, pubs, do) in enumerate(wf.transitions(act.task)):
                for p in pubs:
                    if isinstance(p, str):
                        tokens[(k, p)] = result.get("t%d_%s" % (k, p))
        elif act.item is not None:
            acc = env.acc.get((act.task, act.route))
            for k, (cond, pubs, do) in enumerate(wf.transitions(act.task)):
                for p in pubs:
                    if isinstance(p, str):
                        tokens[(k, p)] = list(acc)
        if tstatus == S.CANCELED:
            env.orc.executed.append(act.task)
            env.orc_stopped = True
            return
        # after a failure the definition prescribes no further scheduling, but completions of
        # still-running actions are followed so that documented clean-up tasks are known
        new = env.orc.complete(act.task, act.due.ctx, ok, bits, tokens, act.due.inst)
        # (entries that become due after the workflow stopped are kept: they are "work still due")
        env.due.extend(new)
        if env.orc.failed:
            env.orc_stopped = True


class C01Justified(Monitor):
    """Every offer is justified by the definition, exactly once; nothing due is lost;
    a run that succeeds executed exactly the prescribed multiset."""

    prop = "C01"

    def after_offers(self, env, tasks):
        self.after_offer_check(env)

    def after_offer_check(self, env):
        if env.unjustified:
            a = env.unjustified[0]
            pending = sorted(d.task for d in env.due if not d.matched)
            self.fail(
                env,
                "unjustified-offer",
                "C01 %s was offered but no satisfied transition (or start rule) justifies another execution; due: %s" % (a.label(), pending),
                task=a.task,
            )
        st = env.status()
        if st in (S.RUNNING, S.RESUMING) and not env.orc.failed and not env.orc_stopped:
            on_offer_now = {t["id"] for t in env.last_offer}
            lost = [d for d in env.due if not d.matched and d.task not in on_offer_now]
            if lost:
                self.fail(
                    env,
                    "lost-execution",
                    "C01 %s is due (%s) but was not offered while the workflow is %s" % (lost[0].task, lost[0].cause, st),
                    task=lost[0].task,
                )

    def on_end(self, env, complete):
        self.after_offer_check(env)
        if not complete:
            return
        st = env.status()
        want = env.orc.expected_final()
        count(env, "c01_final")
        if env.cancel_req or env.orc_stopped and not env.orc.failed:
            return
        if st != want:
            self.fail(env, "final-status", "C01 final status %s, the definition prescribes %s (%s)" % (st, want, env.orc.fail_reasons or env.orc.unreachable_joins()), got=st, want=want)
        if st == S.SUCCEEDED:
            got = env.executed()
            exp = sorted(env.orc.executed)
            if got != exp:
                self.fail(env, "executed-multiset", "C01 executed %s, the definition prescribes %s" % (got, exp), got="+".join(got), want="+".join(exp))


class C02Truth(Monitor):
    prop = "C02"

    def after_call(self, env, name):
        st = env.status()
        if st in (S.PAUSED, S.CANCELED, S.SUCCEEDED):
            if env.inflight:
                self.fail(env, "resting-with-inflight", "C02 status %s while %s still in flight" % (st, [a.label() for a in env.inflight]), status=st)
            count(env, "c02_resting")
        if st in (S.PAUSING, S.CANCELING):
            count(env, "c02_ing")
            if not env.inflight and name != "get_next_tasks":
                self.fail(env, "ing-without-inflight", "C02 status %s with nothing in flight" % st, status=st)
        if st == S.SUCCEEDED:
            self.succeeded_truth(env)
        orc = getattr(env, "orc", None)
        if orc is not None and orc.failed and not env.cancel_req:
            count(env, "c02_must_fail")
            if st != S.FAILED:
                self.fail(env, "failure-not-failed", "C02 %s but the workflow reports %s" % (orc.fail_reasons, st), status=st)

    def succeeded_truth(self, env):
        for rec in env.c.workflow_state.sequence:
            if rec.get("status") not in COMPLETED:
                self.fail(env, "succeeded-incomplete-task", "C02 succeeded while the execution of %s is %s" % (rec["id"], rec.get("status")), task=rec["id"])
        nt = [t["id"] for t in env.c.get_next_tasks()]
        if nt:
            self.fail(env, "succeeded-with-offers", "C02 succeeded but %s is on offer" % nt)
        orc = getattr(env, "orc", None)
        if orc is not None:
            waiting = [d.task for d in env.due if not d.matched]
            if waiting and not env.orc_stopped:
                self.fail(env, "succeeded-with-due", "C02 succeeded while %s is still due" % waiting, task=waiting[0])
            if orc.failed:
                self.fail(env, "succeeded-despite-failure", "C02 succeeded although %s" % orc.fail_reasons)
        if any(rec["id"] == "fail" for rec in env.c.workflow_state.sequence):
            self.fail(env, "succeeded-after-fail-command", "C02 succeeded although a fail command ran")

    def on_quiescent(self, env):
        orc = getattr(env, "orc", None)
        st = env.status()
        if orc is not None and not env.cancel_req and not env.orc_stopped and st in COMPLETED:
            if orc.unreachable_joins() and st == S.SUCCEEDED:
                self.fail(env, "succeeded-unreachable-join", "C02 succeeded with a partially satisfied join %s" % orc.unreachable_joins())


class C03Quiescence(Monitor):
    prop = "C03"

    def on_quiescent(self, env):
        st = env.status()
        count(env, "c03_quiescent")
        nt = env.c.get_next_tasks()
        if nt:
            return
        if st not in RESTING:
            self.fail(env, "stuck", "C03 nothing in flight, nothing on offer, yet the workflow reports %s" % st, status=st)
        if st == S.PAUSED and not (env.ever_pause_req or getattr(env, "held", None)):
            self.fail(env, "paused-unrequested", "C03 paused without a pause request or a paused/pending task")

    def after_call(self, env, name):
        # equivalently: running/resuming/pausing/canceling always has an action in flight or a task on offer
        if name != "get_next_tasks":
            return
        st = env.status()
        if st in (S.RUNNING, S.RESUMING, S.PAUSING, S.CANCELING) and not env.inflight and not getattr(env, "held", None):
            if not env.calls[-1][0] == "get_next_tasks":
                return
            pending_offer = env.c.get_next_tasks()
            if not pending_offer:
                self.fail(env, "active-idle", "C03 workflow reports %s with no action in flight and no task on offer" % st, status=st)


class C04Terminal(Monitor):
    """Once failed/canceled/succeeded: no offers except documented clean-up tasks, status
    constant (succeeded may become failed when output rendering fails), late reports
    absorbed, rejected requests leave the persisted form untouched."""

    prop = "C04"

    def on_start(self, env):
        env.terminal = None

    def after_call(self, env, name):
        st = env.status()
        if env.terminal is None:
            if st in (S.SUCCEEDED, S.FAILED, S.CANCELED):
                env.terminal = st
                env.terminal_at = len(env.log)
            return
        count(env, "c04_after_terminal")
        if st != env.terminal:
            if env.terminal == S.SUCCEEDED and st == S.FAILED and name == "render_workflow_output":
                env.terminal = st
                return
            if env.terminal == S.SUCCEEDED and st == S.FAILED and name == "request_workflow_status" and env.calls[-1][1] == S.FAILED:
                # the lifecycle allows an explicit failed request on a succeeded workflow
                # (the very transition output rendering uses)
                env.terminal = st
                return
            self.fail(env, "terminal-changed", "C04 terminal status %s changed to %s after %s" % (env.terminal, st, name), was=env.terminal, now=st)

    def on_offer(self, env, tasks):
        if env.terminal is None or not tasks:
            return
        orc = getattr(env, "orc", None)
        cleanup = set(orc.cleanup) if orc is not None else set()
        for t in tasks:
            if env.terminal == S.FAILED and t["id"] in cleanup:
                count(env, "c04_cleanup_offer")
                continue
            self.fail(env, "offer-after-terminal", "C04 %s offered although the workflow is %s (documented clean-up tasks: %s)" % (t["id"], env.terminal, sorted(cleanup)), task=t["id"], status=env.terminal)

    def on_request(self, env, kind, rejected, before):
        if rejected is None:
            return
        count(env, "c04_rejected_request")
        after = env.snapshot()
        if after != before:
            a, b = json.loads(before), json.loads(after)
            diff = [k for k in a if a[k] != b.get(k)]
            self.fail(env, "rejected-request-effect", "C04 request %s was rejected (%s) but changed the persisted %s" % (kind, type(rejected).__name__, diff), kind=kind, status=env.status())


class C09Pause(Monitor):
    """While pausing/paused nothing is offered; paused exactly when the last in-flight
    action has reported."""

    prop = "C09"

    def on_offer(self, env, tasks):
        st = env.status()
        if st in (S.PAUSING, S.PAUSED):
            count(env, "c09_offer_checked")
            if tasks:
                self.fail(env, "offer-while-paused", "C09 %s offered while the workflow reports %s" % ([t["id"] for t in tasks], st), task=tasks[0]["id"], status=st)

    def after_call(self, env, name):
        st = env.status()
        if name == "get_next_tasks":
            return
        if env.pause_req and not env.cancel_req and not env.inflight and not env.held:
            count(env, "c09_last_reported")
            if st not in (S.PAUSED, S.FAILED, S.CANCELED):
                self.fail(env, "not-paused-at-rest", "C09 pause requested and the last in-flight action has reported, yet the workflow reports %s (paused is due; only a failure or a cancellation may pre-empt it)" % st, status=st)
        if st == S.PAUSED and env.inflight:
            self.fail(env, "paused-with-inflight", "C09 paused while %s still in flight" % [a.label() for a in env.inflight])


class C10Cancel(Monitor):
    prop = "C10"

    def on_offer(self, env, tasks):
        if env.cancel_req:
            count(env, "c10_offer_checked")
            if tasks:
                what = [(t["id"], [a.get("item_id") for a in t.get("actions", [])]) for t in tasks]
                self.fail(env, "offer-after-cancel", "C10 %s offered after cancellation was requested" % what, task=tasks[0]["id"])

    def after_call(self, env, name):
        if not env.cancel_req or name == "get_next_tasks":
            return
        st = env.status()
        if env.inflight:
            if st != S.CANCELING:
                self.fail(env, "not-canceling", "C10 cancel requested, %s still in flight, yet the workflow reports %s" % ([a.label() for a in env.inflight], st), status=st)
        else:
            count(env, "c10_last_reported")
            if st != S.CANCELED:
                self.fail(env, "not-canceled", "C10 cancel requested and the last in-flight action has reported, yet the workflow reports %s (errors: %s)" % (st, [e["message"] for e in env.c.errors]), status=st)

    def on_end(self, env, complete):
        if not env.cancel_req or not complete:
            return
        st = env.status()
        if st != S.CANCELED:
            self.fail(env, "end-not-canceled", "C10 canceled workflow ended %s" % st, status=st)
        out = env.c.get_workflow_output() or {}
        last = None
        for a in env.started:
            last = a
        # variables the last-reporting execution had received must still be rendered
        if env.script:
            lab, visit = env.script[-1][0], env.script[-1][1]
            for a in env.started:
                if a.label() == lab and a.visit == visit:
                    last = a
        if last is not None and last.ctx:
            for v in env.wf.output:
                if v in last.ctx and last.ctx[v] is not None:
                    count(env, "c10_output_checked")
                    if out.get(v) is None:
                        rec = env.c.get_task_state_entry(last.task, last.route) or {}
                        self.fail(
                            env, "output-not-rendered",
                            "C10 output variable %s was published (%r) before cancellation (requested while %s) but the canceled workflow rendered %r; last-reporting execution %s flagged terminal: %s"
                            % (v, last.ctx[v], env.cancel_from, out, last.label(), bool(rec.get("term"))),
                            cancel_from=env.cancel_from, last_flagged_terminal=bool(rec.get("term")),
                        )


class C18AppendOnly(Monitor):
    """The persisted execution record only grows; started records keep what they saw;
    decided records keep status and decisions."""

    prop = "C18"

    def on_start(self, env):
        env.prev_state = None

    def after_call(self, env, name):
        if name in ("serialize", "deserialize"):
            return
        cur = json.loads(json.dumps(env.c.workflow_state.serialize()))
        prev = env.prev_state
        env.prev_state = cur
        if prev is None:
            return
        count(env, "c18_compared")
        if cur["contexts"][: len(prev["contexts"])] != prev["contexts"]:
            self.fail(env, "contexts-rewritten", "C18 published context snapshots were rewritten or removed by %s" % name, call=name)
        if cur["routes"][: len(prev["routes"])] != prev["routes"]:
            self.fail(env, "routes-rewritten", "C18 routes were rewritten by %s" % name, call=name)
        if len(cur["sequence"]) < len(prev["sequence"]):
            self.fail(env, "sequence-shrank", "C18 task execution records were removed by %s" % name, call=name)
        for i, old in enumerate(prev["sequence"]):
            new = cur["sequence"][i]
            if (new["id"], new["route"]) != (old["id"], old["route"]):
                self.fail(env, "record-identity", "C18 record #%d changed identity %s -> %s" % (i, old["id"], new["id"]), call=name)
            started = old.get("status") not in (None, S.UNSET)
            if started and (new["ctxs"]["in"] != old["ctxs"]["in"] or new["prev"] != old["prev"]):
                self.fail(
                    env, "started-record-changed",
                    "C18 record #%d (%s, %s) had input contexts %s / predecessors %s when it started, now %s / %s (after %s)"
                    % (i, old["id"], old.get("status"), old["ctxs"]["in"], old["prev"], new["ctxs"]["in"], new["prev"], name),
                    task=old["id"], call=name, record_status=old.get("status"),
                )
            decided = old.get("status") in COMPLETED and (old["next"] or old.get("term"))
            if decided:
                count(env, "c18_decided")
                if new.get("status") != old["status"] or new["next"] != old["next"]:
                    self.fail(
                        env, "decided-record-changed",
                        "C18 record #%d (%s) was %s with decisions %s, now %s with %s (after %s)"
                        % (i, old["id"], old["status"], old["next"], new.get("status"), new["next"], name),
                        task=old["id"], call=name, items=env.wf.has_items(old["id"]) if old["id"] in env.wf.tasks else False,
                    )


class C19PureQuery(Monitor):
    """Asking for the next tasks again, with no event in between, returns the same answer and
    leaves the persisted state as the first call left it."""

    prop = "C19"

    def after_offers(self, env, tasks):
        pass

    def on_offer(self, env, tasks):
        count(env, "c19_query_pairs")
        s1 = env.snapshot()
        again = env.c.get_next_tasks()
        s2 = env.snapshot()
        vis = lambda c: {k: v for k, v in (c or {}).items() if not k.startswith("__")}
        key = lambda ts: json.dumps([[t["id"], t["route"], t.get("actions"), t.get("delay"), vis(t.get("ctx"))] for t in ts], sort_keys=True, default=str)
        if key(tasks) != key(again):
            self.fail(env, "answer-differs", "C19 two consecutive get_next_tasks() calls answered %s then %s" % ([t["id"] for t in tasks], [t["id"] for t in again]))
        if s1 != s2:
            a, b = json.loads(s1), json.loads(s2)
            self.fail(env, "second-call-changed-state", "C19 the second get_next_tasks() call changed the persisted %s" % [k for k in a if a[k] != b.get(k)])
        ids = [(t["id"], t["route"]) for t in tasks]
        if ids != sorted(ids):
            self.fail(env, "unstable-order", "C19 offered tasks are not in a stable (id, route) order: %s" % ids)


class C13Retry(Monitor):
    """Bounded attempts per visit; re-offered only after an attempt whose retry condition held,
    with the configured delay; a retried attempt decides no transition and publishes nothing."""

    prop = "C13"

    def on_start(self, env):
        env.attempts = {}
        env.retry_offer = {}
        env.last_attempt_status = {}

    def policy(self, env, task, ctx):
        wf = env.wf
        r = wf.tasks[task].get("retry")
        cmd = [c for c, _, do in wf.transitions(task) if "retry" in do]
        if r:
            n, d = r.get("count"), r.get("delay")
            if isinstance(n, str):
                n = (ctx or {}).get(n.split("ctx().")[1].split(" ")[0])
            if isinstance(d, str):
                d = (ctx or {}).get(d.split("ctx().")[1].split(" ")[0])
            return n, d or 0, "fail"
        if cmd:
            return 3, 0, cmd[0]
        return None

    def on_offer(self, env, tasks):
        for t in tasks:
            if t["id"] not in env.wf.tasks:
                continue
            ctx = {k: v for k, v in (t.get("ctx") or {}).items() if not k.startswith("__")}
            pol = self.policy(env, t["id"], ctx)
            if pol is None:
                continue
            n, delay, cond = pol
            key = (t["id"], t["route"])
            rec = env.c.get_task_state_entry(t["id"], t["route"])
            if "items_count" in t and rec is not None and rec.get("status") in (S.RUNNING, S.PAUSING, S.RESUMING):
                continue  # further items of the same attempt
            if rec is not None and rec.get("status") == S.RETRYING:
                count(env, "c13_reoffers")
                env.retry_offer[key] = n
                last = env.last_attempt_status.get(key)
                if cond == "fail" and last not in ABENDED:
                    self.fail(env, "retry-without-condition", "C13 %s re-offered although its latest execution ended %s" % (t["id"], last), task=t["id"])
                if t.get("delay") != delay:
                    self.fail(env, "retry-delay", "C13 %s re-offered with delay %r, the retry policy says %r" % (t["id"], t.get("delay"), delay), task=t["id"])
                if env.attempts.get(key, 1) + 1 > n + 1:
                    self.fail(env, "too-many-attempts", "C13 %s offered for attempt %d of one visit with retry count %d" % (t["id"], env.attempts.get(key, 1) + 1, n), task=t["id"], count=n)
            else:
                env.retry_offer.pop(key, None)

    def on_started(self, env, act):
        # attempts are executions: an offer that the provider has not started yet is not one
        if act.item is not None and act.item != 0:
            return
        key = (act.task, act.route)
        if key in env.retry_offer:
            env.retry_offer.pop(key)
            env.attempts[key] = env.attempts.get(key, 1) + 1
        else:
            env.attempts[key] = 1

    def on_report(self, env, act, status, result):
        if act.task not in env.wf.tasks or self.policy(env, act.task, env.visible_ctx(act)) is None:
            return
        key = (act.task, act.route)
        rec = env.c.get_task_state_entry(act.task, act.route) or {}
        if rec.get("status") in COMPLETED or rec.get("status") == S.RETRYING:
            env.last_attempt_status[key] = status if act.item is None else (S.FAILED if rec.get("status") == S.RETRYING or rec.get("status") in ABENDED else S.SUCCEEDED)
        if rec.get("status") == S.RETRYING:
            count(env, "c13_retried")
            if rec.get("next"):
                self.fail(env, "retried-attempt-decided", "C13 the retried attempt of %s decided transitions %s" % (act.task, rec["next"]), task=act.task)
            if "out" in rec.get("ctxs", {}):
                self.fail(env, "retried-attempt-published", "C13 the retried attempt of %s published a context" % act.task, task=act.task)
            if env.status() == S.FAILED:
                self.fail(env, "retried-attempt-failed-workflow", "C13 failure handling fired for the retried attempt of %s: workflow failed" % act.task, task=act.task)

    def after_offers(self, env, tasks):
        # a retried attempt must lead to a re-offer, never to a successor
        pass


class C07Join(Monitor):
    """A join runs only when the reference barrier is satisfied, once per satisfaction; a
    partially satisfied join that can no longer be satisfied fails the workflow."""

    prop = "C07"

    def on_started(self, env, act):
        if act.task in env.wf.tasks and env.wf.is_join(act.task):
            count(env, "c07_join_started")
            if act.due is None:
                arrived = sorted(env.orc.arrived[act.task])
                self.fail(
                    env, "join-unjustified",
                    "C07 join %s started with %d of the required %s distinct inbound tasks arrived (%s); it had already run %d time(s) for this satisfaction"
                    % (act.task, len(arrived), env.wf.need(act.task), arrived, env.orc.fired[act.task]),
                    join=act.task, already_fired=env.orc.fired[act.task] > 0,
                )

    def after_offers(self, env, tasks):
        if env.status() in (S.RUNNING, S.RESUMING) and not env.orc_stopped:
            for d in env.due:
                if not d.matched and env.wf.is_join(d.task):
                    self.fail(env, "join-not-offered", "C07 the barrier of %s is satisfied (%s) but the join is not offered" % (d.task, d.cause), join=d.task)

    def on_end(self, env, complete):
        if not complete or env.cancel_req:
            return
        unreach = env.orc.unreachable_joins()
        msgs = [e["message"] for e in env.c.errors]
        if not env.orc.failed:
            for j, n in env.orc.fired.items():
                ran = len([a for a in env.started if a.task == j])
                if n > ran:
                    self.fail(env, "join-never-ran", "C07 the barrier of %s was satisfied by %s but the join never ran; the workflow ended %s with errors %s" % (j, sorted(env.orc.arrived[j]), env.status(), msgs), join=j, status=env.status())
        if unreach and not env.orc.failed:
            count(env, "c07_unreachable")
            if env.status() != S.FAILED or not any("UnreachableJoinError" in m for m in msgs):
                self.fail(env, "unreachable-join-not-failed", "C07 join %s is partially satisfied and can no longer be satisfied, yet the workflow ended %s with errors %s" % (unreach, env.status(), msgs), join=unreach[0], status=env.status())


class C12Items(Monitor):
    """With-items: every item once, in order, within the concurrency window; result in item
    order; succeeds iff all items succeed; nothing offered after pause/cancel/completion."""

    prop = "C12"

    def on_start(self, env):
        env.items = {}  # (task, route) -> state of the current task execution

    def window(self, env, t):
        k = t.get("concurrency")
        if k is None:
            return None
        return k if k > 0 else 1

    def on_offer(self, env, tasks):
        st = env.status()
        for t in tasks:
            if "items_count" not in t:
                continue
            key = (t["id"], t["route"])
            rec = env.c.get_task_state_entry(t["id"], t["route"])
            stt = env.items.get(key)
            if stt is None or stt["done"]:
                stt = {"offered": [], "inflight": set(), "n": t["items_count"], "done": False, "ok": {}, "failed": False}
                env.items[key] = stt
            ids = [a["item_id"] for a in t["actions"]]
            count(env, "c12_item_offers", len(ids))
            if ids and (st in (S.PAUSING, S.PAUSED) or env.pause_req):
                self.fail(env, "items-after-pause", "C12 items %s of %s offered although pause was requested (status %s)" % (ids, t["id"], st), task=t["id"])
            if ids and env.cancel_req:
                self.fail(env, "items-after-cancel", "C12 items %s of %s offered after cancellation was requested" % (ids, t["id"]), task=t["id"])
            for i in ids:
                if i in stt["offered"]:
                    self.fail(env, "item-twice", "C12 item %d of %s offered twice in one task execution" % (i, t["id"]), task=t["id"])
                want = len(stt["offered"])
                if i != want:
                    self.fail(env, "item-order", "C12 item %d of %s offered while item %d has not been offered" % (i, t["id"], want), task=t["id"])
                stt["offered"].append(i)
                stt["inflight"].add(i)
            w = self.window(env, t)
            if w is not None:
                count(env, "c12_window_checked")
                if len(stt["inflight"]) > w:
                    self.fail(env, "window-exceeded", "C12 %d items of %s offered-or-running %s with concurrency %s" % (len(stt["inflight"]), t["id"], sorted(stt["inflight"]), t.get("concurrency")), task=t["id"], k=t.get("concurrency"))

    def on_report(self, env, act, status, result):
        if act.item is None:
            if act.task in env.wf.tasks and env.wf.has_items(act.task):
                rec = env.c.get_task_state_entry(act.task, act.route) or {}
                count(env, "c12_empty")
                if rec.get("status") != S.SUCCEEDED:
                    self.fail(env, "empty-not-succeeded", "C12 empty with-items task %s is %s" % (act.task, rec.get("status")), task=act.task)
            return
        key = (act.task, act.route)
        stt = env.items[key]
        stt["inflight"].discard(act.item)
        stt["ok"][act.item] = status == S.SUCCEEDED
        if status != S.SUCCEEDED:
            stt["failed"] = True
        rec = env.c.get_task_state_entry(act.task, act.route) or {}
        ts = rec.get("status")
        if ts in COMPLETED:
            count(env, "c12_task_completed")
            if stt["inflight"]:
                self.fail(env, "completed-with-inflight", "C12 %s is %s while items %s are still in flight" % (act.task, ts, sorted(stt["inflight"])), task=act.task)
            all_ok = len(stt["ok"]) == stt["n"] and all(stt["ok"].values())
            if (ts == S.SUCCEEDED) != all_ok and ts != S.CANCELED:
                self.fail(env, "task-status", "C12 %s is %s with item outcomes %s of %d items" % (act.task, ts, stt["ok"], stt["n"]), task=act.task)
            stt["done"] = True

    def on_end(self, env, complete):
        if not complete:
            return
        for (task, route), stt in env.items.items():
            rec = env.c.get_task_state_entry(task, route) or {}
            if rec.get("status") == S.SUCCEEDED:
                if stt["offered"] != list(range(stt["n"])):
                    self.fail(env, "not-all-items", "C12 %s succeeded but only items %s of %d were offered" % (task, stt["offered"], stt["n"]), task=task)
                out = env.c.get_workflow_output() or {}
                if "out" in env.wf.output and env.status() == S.SUCCEEDED:
                    count(env, "c12_result_checked")
                    want = [env.policy.item_value(i) for i in range(stt["n"])]
                    if out.get("out") != want:
                        self.fail(env, "result-order", "C12 the task result is %r, the item results in item order are %r" % (out.get("out"), want), task=task)


class C06Context(OracleTracker):
    """The context a task is offered with equals the reference causal context."""

    prop = "C06"

    def on_start(self, env):
        OracleTracker.on_start(self, env)
        env.match_ctx = True

    def on_started(self, env, act):
        before = len(env.unjustified)
        OracleTracker.on_started(self, env, act)
        if act.task not in env.wf.tasks:
            return
        if act.due is not None:
            count(env, "c06_ctx_matched")
            return
        if len(env.unjustified) > before:
            env.unjustified.pop()
        got = env.visible_ctx(act)
        cands = [d for d in env.due if d.task == act.task and not d.matched]
        if not cands:
            return  # not this property's business (C01/C07)
        d = cands[0]
        d.matched = True
        act.due = d
        want = d.visible()
        diff = sorted(k for k in set(got) | set(want) if got.get(k) != want.get(k))
        var = diff[0]
        superseded = False
        b = d.ctx.get(var)
        if b is not None and var in got:
            olds = [pid for pid, tok in env.orc.pubs.items() if tok == got[var]]
            superseded = bool(olds) and olds[0] in b.seen
        self.fail(
            env, "context-differs",
            "C06 %s is rendered with %s=%r, its causal ancestors published %r (differing: %s)%s"
            % (act.label(), var, got.get(var), want.get(var), diff, "; the value shown was superseded by a publish whose publisher had received it" if superseded else ""),
            task=act.task, var=var, shows_superseded=superseded, join=env.wf.is_join(act.task),
        )

    def on_end(self, env, complete):
        if not complete or env.status() != S.SUCCEEDED or not env.wf.output:
            return
        out = env.c.get_workflow_output() or {}
        from vt.oracle import merge_binding  # noqa: F401

        for v in env.wf.output:
            bs = {}
            for tc in env.orc.terminal_ctxs:
                if v in tc:
                    bs[tc[v].pid] = tc[v]
            live = [b for b in bs.values() if not any(b.pid in o.seen for o in bs.values() if o is not b)]
            if len(live) == 1:
                count(env, "c06_output_checked")
                if out.get(v) != live[0].tok:
                    self.fail(env, "output-differs", "C06 output %s is %r, the context reaching the terminal tasks carries %r" % (v, out.get(v), live[0].tok), var=v)
            elif not live:
                if out.get(v) is not None:
                    self.fail(env, "output-leak", "C06 output %s is %r although no terminal task received it" % (v, out.get(v)), var=v)


def descendants(wf, tasks):
    out, todo = set(), list(tasks)
    while todo:
        x = todo.pop()
        if x not in wf.tasks:
            continue
        for _, _, do in wf.transitions(x):
            for t in do:
                if t in wf.tasks and t not in out:
                    out.add(t)
                    todo.append(t)
    return out


class C17Rerun(Monitor):
    prop = "C17"

    def on_rerun(self, env, names, rejected, before):
        ghost = any(n.startswith("ghost/") for n in names)
        count(env, "c17_requests")
        if rejected is not None:
            count(env, "c17_rejected")
            if env.snapshot() != before:
                self.fail(env, "rejected-rerun-effect", "C17 rerun request %s was rejected (%s) but changed the persisted state" % (names, type(rejected).__name__))
            if not ghost and env.rerun_before_status in COMPLETED:
                self.fail(env, "rerun-wrongly-rejected", "C17 rerun request %s for existing task executions of a %s workflow was rejected: %s" % (names, env.rerun_before_status, rejected))
            return
        if ghost:
            self.fail(env, "rerun-ghost-accepted", "C17 rerun request %s names a task execution that does not exist but was accepted" % names)
        if env.rerun_before_status not in COMPLETED:
            self.fail(env, "rerun-active-accepted", "C17 rerun accepted while the workflow was %s" % env.rerun_before_status)
        wf = env.wf
        if names:
            targets = {n.split("/")[0] for n in names}
        else:
            targets = {e["id"] for e in json.loads(before)["state"]["sequence"] if e.get("term") and e.get("status") in ABENDED and e["id"] in wf.tasks}
        due = {d.task for d in getattr(env, "due", []) if not d.matched}
        if env.status() != S.RESUMING:
            # nothing to re-execute and nothing still due: the request may leave everything as it is
            if targets or due or env.snapshot() != before:
                self.fail(env, "not-resuming", "C17 accepted rerun of %s left the workflow %s, not resuming" % (sorted(targets) or "nothing", env.status()), status=env.status())
            env.rerun_rejected = "noop"
            return
        env.rerun_targets = targets
        env.rerun_allowed = targets | descendants(wf, targets) | due | descendants(wf, due)

    def on_started(self, env, act):
        if not env.rerun_done or env.rerun_rejected is not None:
            return
        count(env, "c17_reexecuted")
        if act.task not in env.rerun_allowed:
            self.fail(env, "repeated-completed-work", "C17 %s was executed again although it was neither requested (%s), nor downstream of a requested task, nor still due" % (act.label(), sorted(env.rerun_targets)), task=act.task)

    def on_quiescent(self, env):
        if env.rerun_done and env.rerun_rejected is None:
            st = env.status()
            if st not in COMPLETED and st != S.PAUSED and not env.c.get_next_tasks():
                self.fail(env, "rerun-idle", "C17 the accepted rerun left the workflow %s with nothing in flight and nothing on offer" % st, status=st)

    def on_end(self, env, complete):
        if not complete or not env.rerun_done or env.rerun_rejected is not None:
            return
        redone = {a.task for a in env.started[env.rerun_mark:]}
        for t in env.rerun_targets:
            # a requested task that lies downstream of another requested task is re-executed when (and
            # only if) control reaches it again: it "follows from" the upstream one
            if t in descendants(env.wf, set(env.rerun_targets) - {t}):
                continue
            if t not in redone:
                self.fail(env, "requested-not-reexecuted", "C17 %s was requested for rerun but not executed again (re-executed: %s)" % (t, sorted(redone)), task=t)
