"""Monitors over public observations, one class per property clause.

Monitors are phrased on the reported status exactly as the property is worded (never on
"a request was made", except C10 which is worded on the request). They see only what a
provider sees: get_next_tasks() answers, get_workflow_status(), serialize(), errors,
output, and the task records inside the persisted state.
"""
import json

import vt  # noqa: F401

from orquesta import statuses as S

from vt.defs import CMDS
from vt.env import COMPLETED, Monitor, RESTING
from vt.oracle import Oracle

ABENDED = (S.FAILED, S.EXPIRED, S.ABANDONED)


def count(env, name, n=1):
    c = env.counters
    c[name] = c.get(name, 0) + n


class OracleTracker(Monitor):
    """Feeds the reference semantics with the observed completions and matches every
    started execution to the Due entry (definition-level justification) it consumes."""

    def on_start(self, env):
        env.orc = Oracle(env.wf)
        env.due = env.orc.start()
        env.unjustified = []
        env.orc_stopped = False

    def on_started(self, env, act):
        if act.item is not None and act.item != 0:
            # further items of a with-items execution belong to the same task execution
            for a in reversed(env.started[:-1]):
                if a.task == act.task and a.route == act.route and a.due is not None:
                    act.due = a.due
                    return
        prev = None
        for a in reversed(env.started[:-1]):
            if a.task == act.task and a.route == act.route:
                prev = a
                break
        if prev is not None and getattr(prev, "retried", False):
            act.due = prev.due
            act.attempt = getattr(prev, "attempt", 1) + 1
            return
        if prev is not None and act.item is not None and prev.item is not None and prev.due is not None and not getattr(prev, "task_done", False):
            act.due = prev.due
            return
        for d in env.due:
            if d.task == act.task and not d.matched:
                if env.match_ctx and d.visible() != env.visible_ctx(act):
                    continue
                d.matched = True
                act.due = d
                return
        env.unjustified.append(act)

    def on_report(self, env, act, status, result):
        wf = env.wf
        tdef = wf.tasks.get(act.task, {})
        rec = env.c.get_task_state_entry(act.task, act.route)
        rstat = rec.get("status") if rec else None
        if act.item is not None or tdef.get("retry") or any("retry" in do for _, _, do in wf.transitions(act.task)):
            if rstat == S.RETRYING or (rstat not in COMPLETED):
                if rstat == S.RETRYING:
                    act.retried = True
                return
            tstatus = rstat
            for a in env.started:
                if a.task == act.task and a.route == act.route:
                    a.task_done = True
        else:
            tstatus = status
        if env.orc_stopped or act.due is None:
            env.orc.executed.append(act.task)
            return
        ok = tstatus == S.SUCCEEDED
        bits = getattr(act, "bits", (False, False))
        tokens = {}
        if isinstance(result, dict):
            for k, (cond, pubs, do) in enumerate(wf.transitions(act.task)):
                for p in pubs:
                    if isinstance(p, str):
                        tokens[(k, p)] = result.get("t%d_%s" % (k, p))
        elif act.item is not None:
            acc = env.acc.get((act.task, act.route))
            for k, (cond, pubs, do) in enumerate(wf.transitions(act.task)):
                for p in pubs:
                    if isinstance(p, str):
                        tokens[(k, p)] = list(acc)
        if tstatus == S.CANCELED:
            env.orc.executed.append(act.task)
            env.orc_stopped = True
            return
        new = env.orc.complete(act.task, act.due.ctx, ok, bits, tokens)
        env.due.extend(new)
        if env.orc.failed:
            env.orc_stopped = True


class C01Justified(Monitor):
    """Every offer is justified by the definition, exactly once; nothing due is lost;
    a run that succeeds executed exactly the prescribed multiset."""

    prop = "C01"

    def after_offers(self, env, tasks):
        self.after_offer_check(env)

    def after_offer_check(self, env):
        if env.unjustified:
            a = env.unjustified[0]
            pending = sorted(d.task for d in env.due if not d.matched)
            self.fail(
                env,
                "unjustified-offer",
                "C01 %s was offered but no satisfied transition (or start rule) justifies another execution; due: %s" % (a.label(), pending),
                task=a.task,
            )
        st = env.status()
        if st in (S.RUNNING, S.RESUMING) and not env.orc.failed and not env.orc_stopped:
            lost = [d for d in env.due if not d.matched]
            if lost:
                self.fail(
                    env,
                    "lost-execution",
                    "C01 %s is due (%s) but was not offered while the workflow is %s" % (lost[0].task, lost[0].cause, st),
                    task=lost[0].task,
                )

    def on_end(self, env, complete):
        self.after_offer_check(env)
        if not complete:
            return
        st = env.status()
        want = env.orc.expected_final()
        count(env, "c01_final")
        if env.cancel_req or env.orc_stopped and not env.orc.failed:
            return
        if st != want:
            self.fail(env, "final-status", "C01 final status %s, the definition prescribes %s (%s)" % (st, want, env.orc.fail_reasons or env.orc.unreachable_joins()), got=st, want=want)
        if st == S.SUCCEEDED:
            got = env.executed()
            exp = sorted(env.orc.executed)
            if got != exp:
                self.fail(env, "executed-multiset", "C01 executed %s, the definition prescribes %s" % (got, exp), got="+".join(got), want="+".join(exp))


class C02Truth(Monitor):
    prop = "C02"

    def after_call(self, env, name):
        st = env.status()
        if st in (S.PAUSED, S.CANCELED, S.SUCCEEDED):
            if env.inflight:
                self.fail(env, "resting-with-inflight", "C02 status %s while %s still in flight" % (st, [a.label() for a in env.inflight]), status=st)
            count(env, "c02_resting")
        if st in (S.PAUSING, S.CANCELING):
            count(env, "c02_ing")
            if not env.inflight and name != "get_next_tasks":
                self.fail(env, "ing-without-inflight", "C02 status %s with nothing in flight" % st, status=st)
        if st == S.SUCCEEDED:
            self.succeeded_truth(env)
        orc = getattr(env, "orc", None)
        if orc is not None and orc.failed and not env.cancel_req:
            count(env, "c02_must_fail")
            if st != S.FAILED:
                self.fail(env, "failure-not-failed", "C02 %s but the workflow reports %s" % (orc.fail_reasons, st), status=st)

    def succeeded_truth(self, env):
        for rec in env.c.workflow_state.sequence:
            if rec.get("status") not in COMPLETED:
                self.fail(env, "succeeded-incomplete-task", "C02 succeeded while the execution of %s is %s" % (rec["id"], rec.get("status")), task=rec["id"])
        nt = [t["id"] for t in env.c.get_next_tasks()]
        if nt:
            self.fail(env, "succeeded-with-offers", "C02 succeeded but %s is on offer" % nt)
        orc = getattr(env, "orc", None)
        if orc is not None:
            waiting = [d.task for d in env.due if not d.matched]
            if waiting and not env.orc_stopped:
                self.fail(env, "succeeded-with-due", "C02 succeeded while %s is still due" % waiting, task=waiting[0])
            if orc.failed:
                self.fail(env, "succeeded-despite-failure", "C02 succeeded although %s" % orc.fail_reasons)
        if any(rec["id"] == "fail" for rec in env.c.workflow_state.sequence):
            self.fail(env, "succeeded-after-fail-command", "C02 succeeded although a fail command ran")

    def on_quiescent(self, env):
        orc = getattr(env, "orc", None)
        st = env.status()
        if orc is not None and not env.cancel_req and not env.orc_stopped and st in COMPLETED:
            if orc.unreachable_joins() and st == S.SUCCEEDED:
                self.fail(env, "succeeded-unreachable-join", "C02 succeeded with a partially satisfied join %s" % orc.unreachable_joins())


class C03Quiescence(Monitor):
    prop = "C03"

    def on_quiescent(self, env):
        st = env.status()
        count(env, "c03_quiescent")
        nt = env.c.get_next_tasks()
        if nt:
            return
        if st not in RESTING:
            self.fail(env, "stuck", "C03 nothing in flight, nothing on offer, yet the workflow reports %s" % st, status=st)
        if st == S.PAUSED and not (env.ever_pause_req or getattr(env, "held", None)):
            self.fail(env, "paused-unrequested", "C03 paused without a pause request or a paused/pending task")

    def after_call(self, env, name):
        # equivalently: running/resuming/pausing/canceling always has an action in flight or a task on offer
        if name != "get_next_tasks":
            return
        st = env.status()
        if st in (S.RUNNING, S.RESUMING, S.PAUSING, S.CANCELING) and not env.inflight and not getattr(env, "held", None):
            if not env.calls[-1][0] == "get_next_tasks":
                return
            pending_offer = env.c.get_next_tasks()
            if not pending_offer:
                self.fail(env, "active-idle", "C03 workflow reports %s with no action in flight and no task on offer" % st, status=st)
