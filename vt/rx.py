import re, time
import re._parser as sp, re._constants as sc
import z3
import vt  # noqa: F401

ASCII = [chr(i) for i in range(32, 127)]
def ch(c): return z3.Re(z3.StringVal(c))
def anychar(): return z3.Range(" ", "~")
def cat_(cat):
    if cat == sc.CATEGORY_DIGIT: return z3.Range("0","9")
    if cat == sc.CATEGORY_SPACE: return z3.Union(ch(" "), ch("\t")) if False else ch(" ")
    if cat == sc.CATEGORY_WORD: return z3.Union(z3.Range("a","z"), z3.Range("A","Z"), z3.Range("0","9"), ch("_"))
    raise NotImplementedError(cat)
def tr(items, icase=False):
    parts = []
    for op, av in items:
        if op is sc.LITERAL:
            c = chr(av)
            parts.append(z3.Union(ch(c.lower()), ch(c.upper())) if icase and c.isalpha() else ch(c))
        elif op is sc.NOT_LITERAL:
            parts.append(z3.Intersect(anychar(), z3.Complement(ch(chr(av)))))
        elif op is sc.ANY:
            parts.append(anychar())
        elif op is sc.IN:
            neg = False; alts = []
            for o, a in av:
                if o is sc.NEGATE: neg = True
                elif o is sc.LITERAL: alts.append(ch(chr(a)))
                elif o is sc.RANGE: alts.append(z3.Range(chr(a[0]), chr(a[1])))
                elif o is sc.CATEGORY: alts.append(cat_(a))
                else: raise NotImplementedError(o)
            u = alts[0] if len(alts) == 1 else z3.Union(*alts)
            parts.append(z3.Intersect(anychar(), z3.Complement(u)) if neg else u)
        elif op in (sc.MAX_REPEAT, sc.MIN_REPEAT):
            lo, hi, sub = av
            r = tr(sub, icase)
            if hi is sc.MAXREPEAT:
                parts.append(z3.Star(r) if lo == 0 else z3.Concat(*([r]*lo + [z3.Star(r)])) if lo > 1 else z3.Plus(r))
            elif (lo, hi) == (0, 1): parts.append(z3.Option(r))
            else: parts.append(z3.Loop(r, lo, hi))
        elif op is sc.SUBPATTERN:
            grp, add, dele, sub = av
            parts.append(tr(sub, icase or bool(add & re.I)))
        elif op is sc.BRANCH:
            parts.append(z3.Union(*[tr(b, icase) for b in av[1]]))
        else:
            raise NotImplementedError(op)
    if not parts: return z3.Re(z3.StringVal(""))
    return parts[0] if len(parts) == 1 else z3.Concat(*parts)

