"""C08 - the outcome does not depend on the order completions are reported."""
import json

from orquesta import statuses as S

from vt import defs
from vt.env import Env, Policy, Violation, outcome
from vt.harness.common import ob
from vt.monitors import count


def reach(wf, a, b):
    seen, todo = set(), [a]
    while todo:
        x = todo.pop()
        for _, _, do in wf.transitions(x):
            for t in do:
                if t in wf.tasks and t not in seen:
                    seen.add(t)
                    todo.append(t)
    return b in seen


def concurrent_vars(wf):
    """Variables published by two tasks neither of which is upstream of the other."""
    writers = {}
    for t in wf.tasks:
        for _, pubs, _ in wf.transitions(t):
            for p in pubs:
                v = p if isinstance(p, str) else p[0]
                writers.setdefault(v, set()).add(t)
    out = set()
    for v, ws in writers.items():
        ws = sorted(ws)
        for i in range(len(ws)):
            for j in range(i + 1, len(ws)):
                if not reach(wf, ws[i], ws[j]) and not reach(wf, ws[j], ws[i]):
                    out.add(v)
    return out


def published(env):
    return sorted(json.dumps(c, sort_keys=True) for c in env.c.workflow_state.contexts[1:])


def order_twin(ch, ctx, did, steps, twin=False):
    """X: symbolic report order; Y: canonical order (always the first in flight). Outcomes and
    result bits are fixed per task (the same decision variables are read by both runs)."""
    wf = defs.get(did)
    x = Env(ch, wf, "C08", monitors=[], policy=Policy(steps=steps, by_task=True, bits=True, tokens=True))
    y = Env(ch, wf, "C08", monitors=[], policy=Policy(steps=steps, by_task=True, bits=True, tokens=True, order=False))
    x.counters = ctx["counters"]
    try:
        x.run()
        y.run()
        if x.inflight or y.inflight:
            return x.summary()
        count(x, "c08_compared")
        ox, oy = outcome(x), outcome(y)
        hist = "order %s | canonical order %s" % (" ".join(x.log), " ".join(y.log))
        if ox["status"] != oy["status"]:
            raise Violation("C08", "status-differs", "C08 final status %s vs %s for the same outcomes | %s" % (ox["status"], oy["status"], hist), {"a": ox["status"], "b": oy["status"]})
        if ox["status"] == S.SUCCEEDED:
            count(x, "c08_succeeded_compared")
            if ox["executed"] != oy["executed"]:
                raise Violation("C08", "executed-differs", "C08 executed %s vs %s | %s" % (ox["executed"], oy["executed"], hist), {})
            if published(x) != published(y):
                raise Violation("C08", "published-differs", "C08 published values %s vs %s | %s" % (published(x), published(y), hist), {})
            conc = concurrent_vars(wf)
            for v in wf.output:
                if v in conc:
                    continue
                a, b = (ox["output"] or {}).get(v), (oy["output"] or {}).get(v)
                if a != b:
                    raise Violation("C08", "output-differs", "C08 output %s is %r vs %r although no two concurrent branches write it | %s" % (v, a, b, hist), {"var": v})
    except Violation as v:
        v.definition = did
        v.log = list(x.log)
        v.calls = list(x.calls)
        raise
    if twin:
        v = Violation("C08", "reachability-twin", "two orders compared: " + " ".join(x.log), {})
        v.definition = did
        raise v
    return x.summary()


def obligations(tier):
    obs = []
    for did, steps in [("D02", 5), ("D03", 5), ("D04", 5), ("D05a", 6), ("D06p", 7), ("D07", 6), ("D08", 4), ("D12p", 7), ("D13", 4), ("D13i", 4), ("D13d", 6), ("D15", 4), ("D18", 5), ("D20", 5), ("D13e", 5), ("D22b", 6), ("D22", 6), ("D27", 6)]:
        o = ob("C08", "e2c." + did, "vt.harness.C08:order_twin", {"did": did, "steps": steps}, timeout=900)
        o["antecedents"] = ["c08_compared"]
        obs.append(o)
    obs.append(ob("C08", "twin.D04", "vt.harness.C08:order_twin", {"did": "D04", "steps": 5, "twin": True}, timeout=60))
    return obs
