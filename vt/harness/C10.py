"""C10 - cancellation stops scheduling and ends in canceled."""
from vt.harness import kernels
from vt.harness.common import control_slices, history_body, ob
from vt.monitors import C10Cancel


def cancel(ch, ctx, did, **kw):
    return history_body("C10", lambda: [C10Cancel()], ch, ctx, did, **kw)


def obligations(tier):
    obs = [kernels.e1("C10", "L8_canceling_holds", "L8_canceling_holds", timeout=600)]
    quick = [("D02", 5), ("D04", 5), ("D07", 5), ("D05a", 5), ("D10", 5), ("D11", 5), ("D11s", 5), ("D12p", 6), ("D13", 4)]
    for did, steps in quick:
        o = ob("C10", "e2c." + did, "vt.harness.C10:cancel", {"did": did, "steps": steps, "control": "both", "tokens": True}, timeout=900)
        o["antecedents"] = ["c10_last_reported", "c10_offer_checked"]
        obs.append(o)
    # cancel while an action is pending (the workflow is pausing/paused because of a task event, not a request)
    from vt.harness.common import control_slices
    o = ob("C10", "e2c.a5.D26", "vt.harness.A5:held_actions", {"prop": "C10", "did": "D26", "steps": 6, "control": "cancel"}, timeout=1200)
    o["antecedents"] = ["a5_held", "c10_last_reported"]
    obs.extend(control_slices(o, 7))
    # items that acknowledge the cancel (canceling) or an earlier pause (pausing) before their final report
    for ctl in ("cancel", "both"):
        o = ob("C10", "e2c.cascade.%s.W" % ctl, "vt.harness.C10:cancel", {"did": "W[n=3,k=2]", "steps": 5, "control": ctl, "intermediate": True, "statuses": ["succeeded", "canceled"]}, timeout=1200)
        o["antecedents"] = ["c10_last_reported"]
        obs.append(o)
    obs.append(ob("C10", "twin.D04", "vt.harness.C10:cancel", {"did": "D04", "steps": 5, "control": "both", "twin": True}, timeout=60))
    return obs
