"""C11 - run-time expression errors are contained, recorded and fail the workflow.

A fault-injecting wrapper around orquesta.expressions.base.evaluate makes the k-th
evaluation of the expression at the position under test either raise the evaluator's own
exception class or return a value of the wrong type. Position, kind, k, the history and a
persist/restore before the first call are symbolic. The fault model is validated natively
against the real evaluators (fault_model)."""
import vt  # noqa: F401

from orquesta import statuses as S
from orquesta.expressions import base as expr_base
from orquesta.expressions import jinja as jinja_mod
from orquesta.expressions import yql as yql_mod
from orquesta import exceptions as exc
from orquesta.specs import native as native_specs

from vt.env import COMPLETED, Env, Monitor, Policy, Violation
from vt.harness.common import ob
from vt.monitors import count

MARKS = ["M_indef", "M_vars", "M_action", "M_input", "M_delay", "M_rwhen", "M_rcount", "M_rdelay", "M_when", "M_pub", "M_items", "M_conc", "M_out"]
INT_POS = {"M_delay", "M_rcount", "M_rdelay", "M_conc"}
TASK_OF = {"M_action": "t1", "M_input": "t1", "M_delay": "t1", "M_rwhen": "t1", "M_rcount": "t1", "M_rdelay": "t1", "M_when": "t1", "M_pub": "t1", "M_items": "t2", "M_conc": "t2"}
INPUTS = {"M_indef": 5, "M_vars": 6, "M_action": "core.noop", "M_input": 7, "M_delay": 1, "M_rwhen": True, "M_rcount": 1,
          "M_rdelay": 2, "M_when": True, "M_pub": 8, "M_items": [1, 2], "M_conc": 1, "M_out": 9}


OWN_THOROUGH = True


def definition(lang):
    e = (lambda b: "<% " + b + " %>") if lang == "yaql" else (lambda b: "{{ " + b + " }}")
    return {
        "version": 1.0,
        "input": list(MARKS) + [{"dflt": e("ctx().M_indef")}],
        "vars": [{"v1": e("ctx().M_vars")}],
        "tasks": {
            "t1": {
                "delay": e("ctx().M_delay"),
                "action": e("ctx().M_action"),
                "input": {"x": e("ctx().M_input")},
                "retry": {"when": e("ctx().M_rwhen and failed()"), "count": e("ctx().M_rcount"), "delay": e("ctx().M_rdelay")},
                "next": [{"when": e("ctx().M_when and succeeded()"), "publish": [{"p": e("ctx().M_pub")}], "do": ["t2", "t3"]}],
            },
            "t2": {"with": {"items": e("ctx().M_items"), "concurrency": e("ctx().M_conc")}, "action": "core.echo", "input": {"message": e("item()")}},
            "t3": {"action": "core.noop"},
        },
        "output": [{"o": e("ctx().M_out")}],
    }


class RawDef(object):
    def __init__(self, did, spec, inputs):
        self.id = did
        self.tasks = {}
        self.inputs = inputs
        self.vars = {}
        self.output = []
        self._spec = spec

    @property
    def spec(self):
        return self._spec

    def transitions(self, task):
        return []

    def has_items(self, task):
        return task == "t2"

    def is_join(self, task):
        return False


SPECS = {}


def get_def(lang):
    if lang not in SPECS:
        spec = native_specs.WorkflowSpec(definition(lang))
        errs = spec.inspect()
        assert not errs, errs
        SPECS[lang] = RawDef("F[%s]" % lang, spec, dict(INPUTS))
    return SPECS[lang]


FAULT = {"mark": None, "kind": 0, "nth": 0, "seen": 0, "fired": False, "lang": "yaql", "persistent": False}
_real = expr_base.evaluate


def faulty(statement, data=None):
    m = FAULT["mark"]
    if m is not None and isinstance(statement, str) and m in statement and ("<%" in statement or "{{" in statement):
        FAULT["seen"] += 1
        if FAULT["seen"] - 1 == FAULT["nth"] or (FAULT["persistent"] and FAULT["seen"] - 1 > FAULT["nth"]):
            FAULT["fired"] = True
            if FAULT["kind"] == 0:
                if FAULT["lang"] == "yaql":
                    raise yql_mod.YaqlEvaluationException("injected fault at %s" % m)
                raise jinja_mod.JinjaEvaluationException("injected fault at %s" % m)
            return "not-an-int" if m in INT_POS else ({"not": "a list"} if m == "M_items" else None)
    return _real(statement, data)


class C11Contained(Monitor):
    prop = "C11"

    def after_call(self, env, name):
        if not FAULT["fired"]:
            return
        count(env, "c11_fault_fired")
        st = env.status()
        mark = FAULT["mark"]
        if FAULT["kind"] == 1 and mark not in INT_POS and mark != "M_items":
            return
        errs = env.c.errors
        if not errs:
            self.fail(env, "not-recorded", "C11 evaluation failure at %s left no error entry (status %s)" % (mark, st), mark=mark, kind=FAULT["kind"])
        if st not in (S.FAILED, S.CANCELED):
            self.fail(env, "not-failed", "C11 evaluation failure at %s but the workflow reports %s" % (mark, st), mark=mark, kind=FAULT["kind"], status=st)
        t = TASK_OF.get(mark)
        if t and not any(e.get("task_id") == t for e in errs):
            self.fail(env, "error-not-attributed", "C11 the error entries %s do not name task %s for the failure at %s" % (errs, t, mark), mark=mark)
        if mark in ("M_when", "M_pub") and not any(e.get("task_transition_id") for e in errs):
            self.fail(env, "error-not-attributed", "C11 the error entries %s do not name the transition for the failure at %s" % (errs, mark), mark=mark)

    def on_offer(self, env, tasks):
        if FAULT["fired"] and tasks and not (FAULT["kind"] == 1 and FAULT["mark"] not in INT_POS and FAULT["mark"] != "M_items"):
            self.fail(env, "offer-after-failure", "C11 %s offered after the evaluation failure at %s" % ([t["id"] for t in tasks], FAULT["mark"]), mark=FAULT["mark"])

    def on_crash(self, env, data):
        self.after_call(env, "deserialize")

    def on_rerun(self, env, names, rejected, before):
        # an accepted rerun legitimately leaves the failed status and removes the error entries of
        # the tasks it reruns; the clauses apply again from the next failing evaluation on
        if rejected is None and env.status() not in (S.FAILED, S.CANCELED):
            FAULT["fired"] = False


def faults(ch, ctx, lang, mark, steps=5, twin=False, control=None, order=False, rerun=None):
    wf = get_def(lang)
    FAULT.update(mark=mark, kind=0, nth=0, seen=0, fired=False, lang=lang, persistent=bool(rerun))
    if mark is not None:
        if mark in INT_POS or mark == "M_items":
            FAULT["kind"] = 1 if ch.flag("wrong_type") else 0
        FAULT["nth"] = 1 if ch.flag("second_evaluation") else 0
    env = Env(ch, wf, "C11", monitors=[C11Contained()], policy=Policy(steps=steps, order=order, control=control, crash="bits", crash_max=0, crash_init=True, rerun=rerun, rerun_steps=2, rerun_order=False))
    env.counters = ctx["counters"]
    expr_base.evaluate = faulty
    try:
        env.run()
    except Violation as v:
        v.definition = wf.id
        v.log = list(env.log)
        v.calls = list(env.calls)
        raise
    finally:
        expr_base.evaluate = _real
    if twin:
        v = Violation("C11", "reachability-twin", "end reached (fault fired: %s): %s" % (FAULT["fired"], " ".join(env.log)), {})
        v.definition = wf.id
        raise v
    s = env.summary()
    s["fault"] = dict(FAULT)
    return s


def faults_pending(ch, ctx, lang, mark, twin=False):
    """A5 variant: t1 reports pending (the workflow rests paused), the workflow may be canceled
    meanwhile, then the answer arrives and the faulty transition of t1 is evaluated."""
    from orquesta import events

    wf = get_def(lang)
    FAULT.update(mark=mark, kind=0, nth=0, seen=0, fired=False, lang=lang)
    env = Env(ch, wf, "C11", monitors=[C11Contained()], policy=Policy(steps=3, order=False))
    env.counters = ctx["counters"]
    expr_base.evaluate = faulty
    try:
        env.start()
        if env.inflight:
            act = env.inflight.pop(0)
            env.log.append("~%s:pending" % act.label())
            env._update(act.task, act.route, events.ActionExecutionEvent(S.PENDING), ["action", S.PENDING])
            if ch.flag("cancel_while_pending"):
                env.request(S.CANCELING)
                env.offers()
            elif ch.flag("pause_requested_while_pending"):
                env.try_request(S.PAUSING)
            env.inflight.append(act)
            env.log.append("(answer)")
            env.report(0, S.SUCCEEDED, None)
            env.offers()
            if env.status() == S.PAUSED and not env.cancel_req:
                env.request(S.RESUMING)
                env.offers()
            while env.inflight and env.step < 4:
                a2 = env.inflight[0]
                env.report(0, S.SUCCEEDED, env.policy.item_value(a2.item) if a2.item is not None else None)
                env.step += 1
                env.offers()
            env.render_output()
    except Violation as v:
        v.definition = wf.id
        v.log = list(env.log)
        v.calls = list(env.calls)
        raise
    finally:
        expr_base.evaluate = _real
    if twin:
        v = Violation("C11", "reachability-twin", "end reached", {})
        v.definition = wf.id
        raise v
    s = env.summary()
    s["fault"] = dict(FAULT)
    return s


def fault_model(ch, ctx):
    """Native validation of the fault model: what the real evaluators raise for the four
    documented failure kinds is an ExpressionEvaluationException (what kind 0 injects)."""
    cases = {
        "yaql": ["<% ctx().nope %>", "<% ctx().d.nokey %>", "<% 1 + ctx().s %>", "<% nofunc(1) %>"],
        "jinja": ["{{ ctx().nope }}", "{{ ctx().d.nokey.deeper }}", "{{ 1 + ctx().s }}", "{{ nofunc(1) }}"],
    }
    data = {"d": {"a": 1}, "s": "text"}
    n = 0
    for lang, exprs in cases.items():
        for e in exprs:
            try:
                expr_base.evaluate(e, data)
            except exc.ExpressionEvaluationException:
                n += 1
                continue
            except Exception as ex:
                raise AssertionError("fault model invalid: %s raises %s, not an ExpressionEvaluationException" % (e, type(ex).__name__))
            raise AssertionError("fault model invalid: %s did not raise" % e)
    return {"validated": n}


def obligations(tier):
    obs = []
    for lang in ("yaql", "jinja"):
        for m in MARKS:
            params = {"lang": lang, "mark": m, "steps": 5}
            if tier == "thorough":
                params.update(steps=7, control="either", order=True)
            o = ob("C11", "e2c.%s.%s" % (lang, m), "vt.harness.C11:faults", params, timeout=600 if tier == "quick" else 3600)
            o["antecedents"] = ["c11_fault_fired"]
            obs.append(o)
    for lang in ("yaql", "jinja"):
        for m in ("M_action", "M_input", "M_delay", "M_items", "M_when", "M_pub", "M_out"):
            o = ob("C11", "e2c.rerun.%s.%s" % (lang, m), "vt.harness.C11:faults", {"lang": lang, "mark": m, "steps": 4, "rerun": "default"}, timeout=600)
            o["antecedents"] = ["c11_fault_fired"]
            obs.append(o)
    for lang in ("yaql", "jinja"):
        for m in ("M_when", "M_pub"):
            o = ob("C11", "e2c.pending.%s.%s" % (lang, m), "vt.harness.C11:faults_pending", {"lang": lang, "mark": m}, timeout=600)
            o["antecedents"] = ["c11_fault_fired"]
            obs.append(o)
    obs.append(ob("C11", "model", "vt.harness.C11:fault_model", {}, timeout=60))
    obs.append(ob("C11", "twin.yaql", "vt.harness.C11:faults", {"lang": "yaql", "mark": "M_pub", "steps": 5, "twin": True}, timeout=60))
    return obs
