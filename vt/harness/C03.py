"""C03 - no stuck workflow: quiescence implies a resting status."""
from vt.harness import A5, kernels
from vt.harness.common import control_slices, history_body, ob
from vt.monitors import C03Quiescence


def quiescence(ch, ctx, did, **kw):
    return history_body("C03", lambda: [C03Quiescence()], ch, ctx, did, **kw)


def obligations(tier):
    obs = [kernels.e1("C03", "L5_no_stuck", "L5_no_stuck", timeout=600)]
    quick = [("D02", 5), ("D04", 5), ("D05", 6), ("D07", 5), ("D09", 8), ("D10", 6), ("D10c", 4), ("D11", 5), ("D11j", 6), ("D12", 6)]
    for did, steps in quick:
        o = ob("C03", "e2c." + did, "vt.harness.C03:quiescence", {"did": did, "steps": steps, "control": "either"}, timeout=900)
        if did in ("D05", "D10"):
            obs.extend(control_slices(o, steps + 1))
        else:
            obs.append(o)
    for did, steps in (("D11", 4), ("D04", 4), ("D10", 4)):
        o = ob("C03", "e2c.rerun." + did, "vt.harness.C03:quiescence", {"did": did, "steps": steps, "rerun": "default", "rerun_steps": 3, "rerun_order": False, "statuses": ["succeeded", "timeout"] if did == "D11" else ["succeeded", "failed"]}, timeout=900)
        o["antecedents"] = ["c03_quiescent"]
        obs.append(o)
    obs.append(ob("C03", "twin.D04", "vt.harness.C03:quiescence", {"did": "D04", "steps": 5, "twin": True}, timeout=60))
    for o in obs:
        if "e2c." in o["id"]:
            o["antecedents"] = ["c03_quiescent"]
    obs.append(A5.obligation("C03", tier))
    return obs
