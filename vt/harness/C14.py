"""C14 - the composed graph is exactly the definition's tasks and transitions.

The solver enumerates a bit-encoded family of definitions exhaustively (every transition-target
subset incl. self loops, join flags, declaration orders over three tasks; attribute and
engine-command variants on fixed skeletons). Each accepted definition is composed by the real
composer and compared with an independent reachability construction. No generalisation beyond
the enumerated family is claimed (the composer hashes task names and walks networkx, so
structure cannot stay symbolic)."""
import itertools
import json

import vt  # noqa: F401

from orquesta import graphing
from orquesta.composers import native as comp
from orquesta.specs import native as native_specs

from vt.env import Monitor, Violation
from vt.harness.common import history_body, ob

LEVEL = "exploration"
RULE = "one evaluation per CrossHair path = one definition of the bit-encoded family (transition targets, join flags, declaration order chosen by solver-decided bits); non-trivial = accepted by inspect() and composed; distinct = distinct definition dicts"
NAMES = ["t0", "t1", "t2"]
CMDS = ("noop", "fail", "continue", "retry")


OWN_THOROUGH = True


def reference(defn):
    tasks = defn["tasks"]

    def targets(n):
        out = []
        for k, tr in enumerate(tasks[n].get("next", [])):
            do = tr.get("do", ["continue"]) if "do" in tr or True else []
            if isinstance(do, str):
                do = [x.strip() for x in do.split(",")]
            # a (task, transition, target) triple is one edge however often the target is written
            do = list(dict.fromkeys(do))
            for t in do or ["continue"]:
                out.append((k, t, tr.get("when")))
        return out

    has_in = {t for n in tasks for _, t, _ in targets(n)}
    roots = sorted(n for n in tasks if n not in has_in)
    seen, todo = set(), list(roots)
    while todo:
        n = todo.pop()
        if n in seen or n not in tasks:
            continue
        seen.add(n)
        todo.extend(t for _, t, _ in targets(n))
    edges = []
    retry = {}
    for n in seen:
        r = tasks[n].get("retry")
        if r:
            retry[n] = {"when": r.get("when"), "count": r.get("count"), "delay": r.get("delay")}
        for k, t, when in targets(n):
            if t == "retry":
                retry[n] = {"when": when or "<% completed() %>", "count": 3}
                continue
            edges.append((n, t, k, when))
    nodes = set(seen) | {t for _, t, _, _ in edges}
    barriers = {}
    for n in seen:
        if "join" in tasks[n] and tasks[n]["join"] is not None:
            barriers[n] = "*" if tasks[n]["join"] == "all" else tasks[n]["join"]
    return roots, sorted(nodes), sorted(edges, key=lambda e: (e[0], e[1], e[2])), barriers, retry


def canon(ser):
    nodes = sorted((n["id"], json.dumps({k: v for k, v in n.items() if k not in ("id",)}, sort_keys=True)) for n in ser["nodes"])
    edges = sorted((ser["nodes"][i]["id"], e["id"], e.get("ref"), json.dumps(e.get("criteria")), e.get("key")) for i, adj in enumerate(ser["adjacency"]) for e in adj)
    return nodes, edges


def check(defn, base_defn, label):
    def fail(mon, msg, **facts):
        v = Violation("C14", mon, "C14 " + msg + " | definition: " + json.dumps(defn, sort_keys=False), facts)
        v.definition = label
        v.log = [json.dumps(defn)]
        raise v

    spec = native_specs.WorkflowSpec(json.loads(json.dumps(defn)))
    if spec.inspect():
        return "rejected"
    roots, nodes, edges, barriers, retry = reference(defn)
    g = comp.WorkflowComposer.compose(spec)
    ser = g.serialize()
    got_nodes = sorted(n["id"] for n in ser["nodes"])
    if got_nodes != nodes:
        fail("nodes", "composed tasks %s, reachable from the start tasks: %s" % (got_nodes, nodes))
    got_edges = sorted(((s, e[1], e[3].get("ref"), (e[3].get("criteria") or [None])[0]) for s in got_nodes for e in g.get_next_transitions(s)), key=lambda e: (e[0], e[1], e[2]))
    if got_edges != edges:
        fail("edges", "composed edges %s, the definition has %s" % (got_edges, edges))
    if [r["id"] for r in g.roots] != roots:
        fail("roots", "roots %s, tasks nothing transitions into: %s" % ([r["id"] for r in g.roots], roots))
    got_b = {n["id"]: n["barrier"] for n in ser["nodes"] if "barrier" in n}
    if got_b != barriers:
        fail("barriers", "barrier attributes %s, join is declared as %s" % (got_b, barriers), got=json.dumps(got_b, sort_keys=True), want=json.dumps(barriers, sort_keys=True))
    got_r = {n["id"]: n["retry"] for n in ser["nodes"] if "retry" in n}
    if got_r != retry:
        fail("retry", "retry attributes %s, declared %s" % (got_r, retry))
    g2 = graphing.WorkflowGraph.deserialize(json.loads(json.dumps(ser)))
    if json.loads(json.dumps(g2.serialize())) != json.loads(json.dumps(ser)):
        fail("serialisation", "the graph does not survive serialisation and restoration unchanged")
    for n in got_nodes:
        a = sorted((e[1], e[2], json.dumps(e[3], sort_keys=True)) for e in g.get_next_transitions(n))
        b = sorted((e[1], e[2], json.dumps(e[3], sort_keys=True)) for e in g2.get_next_transitions(n))
        if a != b:
            fail("edge-keys", "edge identities of %s change across serialisation: %s vs %s" % (n, a, b))
    if base_defn is not None:
        base = comp.WorkflowComposer.compose(native_specs.WorkflowSpec(json.loads(json.dumps(base_defn)))).serialize()
        if canon(ser) != canon(base):
            fail("declaration-order", "the composed graph depends on the declaration order of the tasks")
    return "ok"


def build(bits, joins, order):
    tasks = {}
    for i, n in enumerate(NAMES):
        spec = {"action": "core.noop"}
        tg = [NAMES[j] for j in range(3) if bits[i][j]]
        if tg:
            spec["next"] = [{"when": "<% result().c" + str(i) + " %>", "do": tg}]
        if joins[i] is not None:
            spec["join"] = joins[i]
        tasks[n] = spec
    perm = list(itertools.permutations(NAMES))[order]
    return {"version": 1.0, "tasks": {n: tasks[n] for n in perm}}


def family(ch, ctx, join_values, twin=False):
    bits = [[ch.flag("e%d%d" % (i, j)) for j in range(3)] for i in range(3)]
    joins = [join_values[ch.pick("j%d" % i, len(join_values))] for i in range(3)]
    order = ch.pick("order", 6)
    defn = build(bits, joins, order)
    r = check(defn, build(bits, joins, 0), "family")
    c = ctx["counters"]
    c["c14_" + r] = c.get("c14_" + r, 0) + 1
    if twin and r == "ok":
        v = Violation("C14", "reachability-twin", "accepted definition composed and compared", {})
        v.definition = "family"
        raise v
    return {"definition": defn, "result": r}


def skeletons():
    n = {"action": "core.noop"}
    w = lambda c: "<% result()." + c + " %>"
    sk = {
        "fork-join": {"s": dict(n, next=[{"do": ["a", "b"]}]), "a": dict(n, next=[{"do": "j"}]), "b": dict(n, next=[{"do": "j"}]), "j": dict(n, join="JOIN")},
        "parallel-edges": {"a": dict(n, next=[{"when": w("x"), "do": "b"}, {"when": w("y"), "do": "b"}, {"do": "b"}]), "b": dict(n)},
        "commands": {"a": dict(n, next=[{"when": "<% failed() %>", "do": ["c", "fail"]}, {"when": "<% succeeded() %>", "do": "noop"}, {"when": w("z")}]), "c": dict(n)},
        "retry-spec": {"a": dict(n, retry={"count": "RCOUNT", "delay": 2, "when": w("r")}, next=[{"do": "b"}]), "b": dict(n)},
        "retry-command": {"a": dict(n, next=[{"when": "<% failed() %>", "do": "retry"}, {"when": "<% succeeded() %>", "do": "b"}]), "b": dict(n)},
        "nested-split": {"s": dict(n, next=[{"do": ["a", "b"]}]), "a": dict(n, next=[{"do": "x"}]), "b": dict(n, next=[{"do": "x"}]), "x": dict(n, next=[{"do": ["y", "z"]}]),
                         "y": dict(n, next=[{"do": "k"}]), "z": dict(n, next=[{"do": "k"}]), "k": dict(n, join="JOIN")},
        "cycle": {"i": dict(n, next=[{"do": "a"}]), "a": dict(n, next=[{"do": "b"}]), "b": dict(n, next=[{"when": w("again"), "do": "a"}, {"when": w("done"), "do": "c"}]), "c": dict(n)},
        "unreachable": {"a": dict(n, next=[{"do": "b"}]), "b": dict(n), "c": dict(n, next=[{"do": "d"}]), "d": dict(n, join="JOIN")},
        "comma-dup": {"a": dict(n, next=[{"when": w("x"), "do": "b, b"}, {"when": w("y"), "do": "b,c , b"}]), "b": dict(n), "c": dict(n)},
        "comma-do": {"s": dict(n, next=[{"do": "a, b"}]), "a": dict(n), "b": dict(n, next=[{"do": "a"}])},
    }
    return sk


def skeleton(ch, ctx, name, twin=False):
    tasks = skeletons()[name]
    jv = ["all", 0, 1, 2, 3][ch.pick("join", 5)]
    rc = [0, 1, 3, "<% ctx().n %>"][ch.pick("rcount", 4)] if name == "retry-spec" else 1
    text = json.dumps(tasks).replace('"JOIN"', json.dumps(jv)).replace('"RCOUNT"', json.dumps(rc))
    tasks = json.loads(text)
    names = sorted(tasks)
    perms = list(itertools.permutations(names))
    k = ch.pick("perm", min(len(perms), 6))
    perm = perms[(k * 7) % len(perms)]
    extra = {"vars": [{"n": 1}]} if name == "retry-spec" else {}
    defn = dict({"version": 1.0, "tasks": {n: tasks[n] for n in perm}}, **extra)
    base = dict({"version": 1.0, "tasks": {n: tasks[n] for n in names}}, **extra)
    r = check(defn, base, name)
    c = ctx["counters"]
    c["c14_" + r] = c.get("c14_" + r, 0) + 1
    return {"skeleton": name, "join": jv, "result": r}


class GraphConstant(Monitor):
    """The graph a conductor works on - and the one it persists - is the composed graph of the
    definition, at every point of a history: conducting keeps its bookkeeping in the execution
    state, never in the graph (retry policies, barriers and edges stay as declared)."""

    prop = "C14"

    def on_start(self, env):
        env.graph0 = json.dumps(comp.WorkflowComposer.compose(env.spec).serialize(), sort_keys=True)

    def check(self, env, where):
        c = env.counters
        c["c14_graph_compared"] = c.get("c14_graph_compared", 0) + 1
        live = json.dumps(env.c.graph.serialize(), sort_keys=True)
        kept = json.dumps(env.c.serialize()["graph"], sort_keys=True)
        for name, g in (("working", live), ("persisted", kept)):
            if g != env.graph0:
                a, b = json.loads(env.graph0), json.loads(g)
                nodes = [n["id"] for n, m in zip(a.get("nodes", []), b.get("nodes", [])) if n != m]
                self.fail(env, "graph-changed", "C14 the %s graph of the conductor differs from the composed graph of the definition %s (nodes that differ: %s)" % (name, where, nodes), which=name, nodes=",".join(nodes))

    def after_call(self, env, name):
        self.check(env, "after " + name)

    def on_crash(self, env, data):
        self.check(env, "after a restore")


def conducted(ch, ctx, did, **kw):
    return history_body("C14", lambda: [GraphConstant()], ch, ctx, did, **kw)


def obligations(tier):
    obs = []
    # the composed graph stays what it was while a conductor works on it and across persist/restore
    for did, steps in (("D10l", 7), ("D10e", 4), ("D10c", 4), ("D10s", 5), ("D15", 4), ("D04", 4)):
        o = ob("C14", "e2c.conducted." + did, "vt.harness.C14:conducted", {"did": did, "steps": steps, "bits": True, "crash": "one"}, timeout=900)
        o["antecedents"] = ["c14_graph_compared"]
        obs.append(o)
    jvs = [None, "all"] if tier == "quick" else [None, "all", 0, 2]
    base = ob("C14", "e2c.family", "vt.harness.C14:family", {"join_values": jvs}, timeout=1800 if tier == "quick" else 5400)
    base["antecedents"] = ["c14_ok"]
    for i in range(16):
        d = dict(base)
        d["id"] = "C14.e2c.family#%d" % i
        d["fixed"] = {"e00": bool(i & 1), "e01": bool(i & 2), "e02": bool(i & 4), "e10": bool(i & 8)}
        obs.append(d)
    for name in skeletons():
        o = ob("C14", "e2c.skeleton." + name, "vt.harness.C14:skeleton", {"name": name}, timeout=600)
        o["antecedents"] = ["c14_ok"]
        obs.append(o)
    obs.append(ob("C14", "twin.family", "vt.harness.C14:family", {"join_values": [None, "all"], "twin": True}, timeout=120))
    return obs
