"""C07 - a join runs once, and only when its barrier is satisfied."""
from vt import defs
from vt.choice import ReplayChooser
from vt.env import Env, Policy, Violation
from vt.harness import kernels
from vt.harness.common import ob
from vt.monitors import C07Join, OracleTracker

FUNCTIONS = ["orquesta.conducting.WorkflowConductor.get_inbound_criteria_status (E1, barrier N unbounded)", "update_task_state staging / get_next_tasks / machines unreachable-join check (E2c)"]


def joins(ch, ctx, did=None, need=None, branches=3, steps=7, twin=False, **pol):
    wf = defs.get(did) if did else defs.join_def(need, branches)
    env = Env(ch, wf, "C07", monitors=[OracleTracker(), C07Join()], policy=Policy(steps=steps, bits=True, **pol))
    env.counters = ctx["counters"]
    try:
        env.run()
    except Violation as v:
        v.definition = wf.id
        v.log = list(env.log)
        v.calls = list(env.calls)
        raise
    if twin:
        v = Violation("C07", "reachability-twin", "end reached: " + " ".join(env.log), {})
        v.definition = wf.id
        raise v
    return env.summary()


def confirm(ob_, cex):
    """Reproduce a failing barrier-kernel lemma through the public API: a fork of three
    branches into `join: N`, branches completing with the satisfaction pattern of the lemma's
    counterexample, under the history monitor."""
    args = (cex or {}).get("args") or {}
    need = "all" if args.get("n_all") else args.get("N")
    if need != "all" and (not isinstance(need, int) or need < 1 or need > 3):
        need = 2
    sat = args.get("sat") or [2, 2, 0]
    tried = []
    for nd in [need] + [x for x in (1, 2, 3, "all") if x != need]:
        for order in ([0, 1, 2], [2, 1, 0], [1, 0, 2]):
            d = {"r0": 0, "o0": True}
            # decisions: report s first, then the branches in `order`; satisfied -> bit c0 true
            step = 1
            inflight = ["p0", "p1", "p2"]
            for i in order:
                if sat[i] == 0:
                    continue
                d["r%d" % step] = inflight.index("p%d" % i)
                d["o%d" % step] = True
                d["b%d.0" % step] = sat[i] == 2
                inflight.remove("p%d" % i)
                step += 1
            for k in range(step, 9):
                d.setdefault("o%d" % k, True)
                d.setdefault("b%d.0" % k, True)
            tried.append((nd, order))
            try:
                joins(ReplayChooser(d), {"counters": {}}, need=nd, steps=8)
            except Violation as v:
                return {"violation": {"prop": v.prop, "monitor": v.monitor, "message": v.msg}, "signature": v.signature(), "history": getattr(v, "log", None), "lemma": cex}
    return {"violation": None, "note": "no native history reproduces the lemma failure (tried %d)" % len(tried)}


def obligations(tier):
    obs = [kernels.e1("C07", "barrier_kernel", "barrier_kernel", timeout=300)]
    for did, steps in [("D04", 5), ("D05", 7), ("D05a", 6), ("D05b", 6), ("D12", 7), ("D11j", 6)]:
        o = ob("C07", "e2c." + did, "vt.harness.C07:joins", {"did": did, "steps": steps}, timeout=900)
        o["antecedents"] = ["c07_join_started"] if did != "D11j" else ["c07_unreachable"]
        obs.append(o)
    for need in (1, 2, 3, "all"):
        o = ob("C07", "e2c.J%s" % need, "vt.harness.C07:joins", {"need": need, "steps": 6, "statuses": ["succeeded"]}, timeout=900)
        o["antecedents"] = ["c07_join_started"]
        obs.append(o)
    # inbound transitions guarded by values that are truthy/falsy but not booleans
    o = ob("C07", "e2c.raw.D04r", "vt.harness.C07:joins", {"did": "D04r", "steps": 5, "statuses": ["succeeded"], "bit_values": [True, False, None, "", [], 0, "x", 5, ["h"]]}, timeout=900)
    o["antecedents"] = ["c07_join_started"]
    obs.append(o)
    o = ob("C07", "e2c.pause.D12", "vt.harness.C07:joins", {"did": "D12", "steps": 6, "control": "pause", "resume_verbs": True}, timeout=900)
    o["antecedents"] = ["c07_unreachable"]
    obs.append(o)
    obs.append(ob("C07", "twin.D04", "vt.harness.C07:joins", {"did": "D04", "steps": 5, "twin": True}, timeout=60))
    return obs
