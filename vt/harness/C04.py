"""C04 - terminal statuses are final and nothing is scheduled after them."""
from vt.harness import kernels
from vt.harness.common import control_slices, history_body, ob, position_slices
from vt.monitors import C04Terminal, OracleTracker


OWN_THOROUGH = True


def terminal(ch, ctx, did, **kw):
    return history_body("C04", lambda: [OracleTracker(), C04Terminal()], ch, ctx, did, **kw)


def obligations(tier):
    obs = [kernels.e1("C04", "L4_terminal_final", "L4_terminal_final", timeout=600)]
    defs = ["D02", "D04", "D06", "D07", "D12", "D11s"]
    steps = 5 if tier == "quick" else 6
    for did in defs:
        o = ob("C04", "e2c.ctl." + did, "vt.harness.C04:terminal", {"did": did, "steps": steps, "control": "either"}, timeout=900 if tier == "quick" else 3600)
        if tier == "quick":
            obs.append(o)
        else:
            o["params"]["crash"] = "one"
            obs.extend(control_slices(o, steps + 2))
        if did != "D06" or tier != "quick":
            r = ob("C04", "e2c.req." + did, "vt.harness.C04:terminal", {"did": did, "steps": 4 if tier == "quick" else 5, "requests": True}, timeout=1200 if tier == "quick" else 5400)
            if tier == "quick":
                obs.append(r)
            else:
                obs.extend(position_slices(r, "req_at", 7))
    # late reports whose retry condition cannot be evaluated (it must not be evaluated once the workflow is terminal)
    o = ob("C04", "e2c.ctl.D32", "vt.harness.C04:terminal", {"did": "D32", "steps": 5, "control": "either"}, timeout=900)
    obs.append(o)
    # ... and the late answer of a pending action to a workflow that has meanwhile been canceled or has failed
    o = ob("C04", "e2c.a5.D32", "vt.harness.A5:held_actions", {"prop": "C04", "did": "D32", "steps": 6, "control": "cancel", "late_answers": True}, timeout=1200)
    o["antecedents"] = ["a5_late_answer", "c04_after_terminal"]
    obs.append(o)
    for did in ("D07", "D07w"):
        o = ob("C04", "e2c.lazy." + did, "vt.harness.C04:terminal", {"did": did, "steps": steps, "lazy_start": 2}, timeout=900)
        o["antecedents"] = ["c04_after_terminal"]
        obs.append(o)
    obs.append(ob("C04", "twin.D07", "vt.harness.C04:terminal", {"did": "D07", "steps": 5, "twin": True}, timeout=60))
    for o in obs:
        if ".ctl." in o["id"]:
            o["antecedents"] = ["c04_after_terminal"]
        if ".req." in o["id"]:
            o["antecedents"] = ["c04_rejected_request"]
    return obs
