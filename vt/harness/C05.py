"""C05 - persisting and restoring the conductor at any point is unobservable."""
import json

from vt import defs
from vt.env import Env, Monitor, Policy, Violation
from vt.harness.common import ob, position_slices
from vt.monitors import count

from orquesta import conducting


class Fixpoint(Monitor):
    prop = "C05"

    def on_crash(self, env, data):
        count(env, "c05_crash_points")
        again = json.loads(json.dumps(env.c.serialize()))
        if again != data:
            diff = [k for k in data if data[k] != again.get(k)]
            self.fail(env, "not-a-fixpoint", "C05 persisting the restored conductor does not reproduce the persisted form; differs in %s" % diff, part=",".join(diff))


OWN_THOROUGH = True


class SnapshotStable(Monitor):
    """A persisted form, once taken, is a snapshot: later events on the live conductor must not
    change the object serialize() returned (it may still be waiting to be written or compared)."""

    prop = "C05"

    def on_start(self, env):
        env.held_form = None

    def after_call(self, env, name):
        if name not in ("update_task_state", "request_workflow_status", "get_next_tasks"):
            return
        held = getattr(env, "held_form", None)
        if held is not None:
            count(env, "c05_snapshots_rechecked")
            obj, text, when = held
            if json.dumps(obj, sort_keys=True, default=str) != text:
                now = json.loads(json.dumps(obj, default=str))
                was = json.loads(text)
                self.fail(env, "persisted-form-mutated", "C05 the persisted form taken after '%s' changed while the conductor went on (%s): restoring from it no longer gives the state that was persisted" % (when, [k for k in was if was[k] != now.get(k)]), part=",".join(k for k in was if was[k] != now.get(k)))
        obj = env.c.serialize()
        env.held_form = (obj, json.dumps(obj, sort_keys=True, default=str), " ".join(env.log[-2:]))


def crash_twin(ch, ctx, did, steps, crash="bits", crash_max=6, control=None, twin=False, rerun=None, crash_init=False):
    """N is never persisted; P is persisted and restored at the chosen boundaries. Both are
    driven by the same decisions. Offers at every step and the final persisted form, output,
    errors and status must be identical."""
    wf = defs.get(did)
    n = Env(ch, wf, "C05", monitors=[SnapshotStable()], policy=Policy(steps=steps, tokens=True, bits=True, control=control, rerun=rerun, rerun_steps=3, rerun_ok=True, rerun_order=False))
    p = Env(ch, wf, "C05", monitors=[Fixpoint()], policy=Policy(steps=steps, tokens=True, bits=True, control=control, crash=crash, crash_max=crash_max, crash_init=crash_init, rerun=rerun, rerun_steps=3, rerun_ok=True, rerun_order=False))
    p.counters = ctx["counters"]
    n.counters = ctx["counters"]
    try:
        n.run()
        p.run()
        if not p.crashes:
            return p.summary()
        count(p, "c05_twin_compared")
        for i, (a, b) in enumerate(zip(n.offer_log, p.offer_log)):
            if a != b:
                ida = [t[0] for t in json.loads(a)]
                idb = [t[0] for t in json.loads(b)]
                what = "tasks %s vs %s" % (ida, idb) if ida != idb else "the rendered details (actions, delay, context) of %s" % ida
                raise Violation("C05", "offers-differ", "C05 offer #%d differs after a restore: %s | restored history: %s | never persisted: %s" % (i, what, " ".join(p.log), " ".join(n.log)), {"what": "ids" if ida != idb else "details"})
        if len(n.offer_log) != len(p.offer_log) or n.log != [x for x in p.log if x != "CRASH"]:
            raise Violation("C05", "history-differs", "C05 histories diverge: restored %s | never persisted %s" % (" ".join(p.log), " ".join(n.log)), {})
        sa = json.loads(json.dumps(n.c.serialize()))
        sb = json.loads(json.dumps(p.c.serialize()))
        if sa != sb:
            parts = [k for k in sa if sa[k] != sb.get(k)]
            detail = ""
            if "state" in parts:
                detail = " state keys: %s" % [k for k in sa["state"] if sa["state"][k] != sb["state"].get(k)]
            raise Violation("C05", "persisted-differs", "C05 final persisted form differs in %s%s | restored history: %s" % (parts, detail, " ".join(p.log)), {"part": ",".join(parts)})
        for name, fa, fb in (("status", n.status(), p.status()), ("output", n.c.get_workflow_output(), p.c.get_workflow_output()), ("errors", n.c.errors, p.c.errors)):
            if fa != fb:
                raise Violation("C05", "final-differs", "C05 final %s differs: restored %r vs never persisted %r | %s" % (name, fb, fa, " ".join(p.log)), {"field": name})
    except Violation as v:
        v.definition = did
        v.log = list(p.log)
        v.calls = list(p.calls)
        raise
    if twin:
        v = Violation("C05", "reachability-twin", "restored and never-persisted runs compared: " + " ".join(p.log), {})
        v.definition = did
        raise v
    return p.summary()


def obligations(tier):
    obs = []
    ante = ["c05_twin_compared", "c05_crash_points"]
    if tier == "quick":
        bits = [("D01", 3), ("D02", 4), ("D04", 4), ("D08", 3), ("D09", 5), ("D10c", 4), ("D16", 2), ("D25", 3)]
        one = [("D03", 4), ("D06p", 5), ("D07", 5), ("D10", 5), ("D11", 5), ("D12p", 6), ("D13i", 4), ("D09b", 8), ("D22", 6)]
        two = []
    else:
        bits = [("D01", 3), ("D02", 5), ("D04", 5), ("D08", 3), ("D09", 8), ("D10c", 5), ("D16", 2), ("D03", 4)]
        one = [("D06p", 7), ("D12p", 7), ("D10", 6)]
        two = [("D07", 5), ("D11", 5), ("D13i", 4), ("D09b", 8), ("D12p", 6), ("D18", 5)]
    for did, steps in bits:
        o = ob("C05", "e2c.bits." + did, "vt.harness.C05:crash_twin", {"did": did, "steps": steps, "crash": "bits", "crash_max": steps + 2}, timeout=1800)
        o["antecedents"] = ante
        obs.append(o)
    for did, steps in one:
        o = ob("C05", "e2c.one." + did, "vt.harness.C05:crash_twin", {"did": did, "steps": steps, "crash": "one"}, timeout=1800)
        o["antecedents"] = ante
        obs.extend(position_slices(o, "crash_at", steps + 1))
    for did, steps in two:
        o = ob("C05", "e2c.two." + did, "vt.harness.C05:crash_twin", {"did": did, "steps": steps, "crash": "two"}, timeout=3600)
        o["antecedents"] = ante
        obs.extend(position_slices(o, "crash_at", steps + 1))
    for did, steps in (("D11", 4), ("D10", 4), ("D12p", 5)):
        o = ob("C05", "e2c.rerun." + did, "vt.harness.C05:crash_twin", {"did": did, "steps": steps, "crash": "one", "rerun": "default"}, timeout=1800)
        o["antecedents"] = ante
        obs.extend(position_slices(o, "crash_at", steps + 3))
    # persisted right after construction, before anything touched the lazily built state; with input that
    # renders (D01) and with vars that fail to render (D31: the conductor fails itself on first use)
    for did in ("D01", "D31"):
        o = ob("C05", "e2c.init." + did, "vt.harness.C05:crash_twin", {"did": did, "steps": 3, "crash": "bits", "crash_max": 2, "crash_init": True}, timeout=600)
        o["antecedents"] = ante
        obs.append(o)
    o = ob("C05", "e2c.ctl.D11", "vt.harness.C05:crash_twin", {"did": "D11", "steps": 5, "crash": "one", "control": "either"}, timeout=1800)
    obs.extend(position_slices(o, "crash_at", 6))
    obs.append(ob("C05", "twin.D04", "vt.harness.C05:crash_twin", {"did": "D04", "steps": 4, "twin": True}, timeout=120))
    return obs
