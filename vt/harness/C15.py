"""C15 - accepted definitions are executable; broken references are reported.

Forward: every definition of a bit-encoded family that inspect() accepts is composed and
conducted under symbolic histories; no conductor API call may raise.
Converse: a symbolic single-fault mutation of a valid definition (site x fault kind x documented
reference form x expression language) must be reported by inspect() with a matching entry.
The solver enumerates the families exhaustively; no generalisation beyond them."""
import copy
import json

import vt  # noqa: F401

from orquesta.specs import native as native_specs

from vt.env import Env, Policy, Violation
from vt.harness.C11 import RawDef
from vt.harness.C14 import NAMES
from vt.harness.common import ob

LEVEL = "exploration"
RULE = "one evaluation per CrossHair path: (forward) one accepted definition conducted under one history, (converse) one single-fault mutant inspected; non-trivial = the definition was conducted / the mutant was inspected; distinct = distinct (definition, history) or (site, fault, form)"

BASE = {
    "version": 1.0,
    "input": ["a", {"b": "<% ctx().a %>"}],
    "vars": [{"c": "<% ctx().a %>"}],
    "tasks": {
        "t1": {"delay": "<% ctx().a %>", "action": "core.echo", "input": {"m": "<% ctx().a %>"},
               "retry": {"when": "<% ctx().a %>", "count": "<% ctx().a %>", "delay": "<% ctx().a %>"},
               "next": [{"when": "<% ctx().a %>", "publish": [{"p": "<% ctx().a %>"}], "do": ["t2"]}]},
        "t2": {"with": {"items": "<% ctx().a %>", "concurrency": "<% ctx().a %>"}, "action": "<% ctx().a %>", "input": {"m": "<% item() %>"},
               "next": [{"do": ["t3"]}]},
        "t3": {"action": "core.noop"},
    },
    "output": [{"o": "<% ctx().p %>"}],
}
FORMS = ["<% ctx().zz %>", "<% ctx(zz) %>", "<% ctx('zz') %>", '<% ctx("zz") %>', "{{ ctx().zz }}", "{{ ctx('zz') }}", '{{ ctx("zz") }}',
         "<% ctx().a + ctx().zz %>", "pre <% ctx().zz %> post",
         # YAQL equality written without spaces: the text `zz=1` has the shape of an inline parameter (F22)
         "<% ctx().zz=1 %>"]
BROKEN = ["<% 1 +/ 2 %>", "{{ 1 +/ 2 }}", "<% ctx().a. %>", "{{ ctx().a. }}"]


OWN_THOROUGH = True


def sites(d, path=()):
    if isinstance(d, dict):
        for k, v in d.items():
            for x in sites(v, path + (k,)):
                yield x
    elif isinstance(d, list):
        for i, v in enumerate(d):
            for x in sites(v, path + (i,)):
                yield x
    elif isinstance(d, str) and "<%" in d and "item()" not in d:
        yield path


SITES = list(sites(BASE))
NAMED = [p for p in SITES if p[0] in ("vars", "input", "output") or "publish" in p]


def setp(d, path, val):
    for k in path[:-1]:
        d = d[k]
    d[path[-1]] = val


def fail(mon, msg, defn, **facts):
    v = Violation("C15", mon, "C15 " + msg + " | definition: " + json.dumps(defn), facts)
    v.definition = "converse"
    v.log = [json.dumps(defn)]
    raise v


def ref_to(pub, names, i):
    return [names[1], names[2], names[3]][i]


def converse(ch, ctx, kind, twin=False):
    d = copy.deepcopy(BASE)
    c = ctx["counters"]
    c["c15_mutants"] = c.get("c15_mutants", 0) + 1
    if kind == "unassigned":
        path = SITES[ch.pick("site", len(SITES))]
        form = FORMS[ch.pick("form", len(FORMS))]
        setp(d, path, form)
        r = native_specs.WorkflowSpec(d).inspect()
        if not any("zz" in e.get("message", "") and "referenced before assignment" in e.get("message", "") for e in r.get("context", [])):
            fail("unassigned-not-reported", "inspection accepts the reference %r to the unassigned variable zz at %s: %s" % (form, ".".join(map(str, path)), r), d, site=".".join(map(str, path)), form=form)
    elif kind == "self-reference":
        path = NAMED[ch.pick("site", len(NAMED))]
        yq = ch.flag("yaql")
        parent = d
        for k in path[:-1]:
            parent = parent[k]
        name = "fresh"
        expr = ("<% ctx()." + name + " + 1 %>") if yq else ("{{ ctx()." + name + " + 1 }}")
        # the entry assigns the very variable its own value reads; nothing upstream assigns it
        if isinstance(parent, dict) and len(parent) == 1:
            parent.clear()
            parent[name] = expr
        else:
            return {"skipped": path}
        r = native_specs.WorkflowSpec(d).inspect()
        if not any(name in e.get("message", "") and "referenced before assignment" in e.get("message", "") for e in r.get("context", [])):
            fail("unassigned-not-reported", "inspection accepts %s: %s although nothing upstream assigns %s: %s" % (name, expr, name, r), d, site=".".join(map(str, path)), form="self")
    elif kind == "grammar":
        path = SITES[ch.pick("site", len(SITES))]
        expr = BROKEN[ch.pick("broken", len(BROKEN))]
        setp(d, path, expr)
        r = native_specs.WorkflowSpec(d).inspect()
        if not r.get("expressions") and not r.get("syntax"):
            fail("grammar-not-reported", "inspection accepts the malformed expression %r at %s: %s" % (expr, ".".join(map(str, path)), r), d, site=".".join(map(str, path)))
    elif kind == "undefined-task":
        which = ch.pick("which", 8)
        if which == 0:
            d["tasks"]["t1"]["next"][0]["do"] = ["t2", "nowhere"]
        elif which == 1:
            d["tasks"]["t2"]["next"][0]["do"] = "t3, nowhere"
        elif which == 2:
            d["tasks"]["t3"]["next"] = [{"when": "<% failed() %>", "do": "nowhere"}]
        elif which in (3, 4, 5, 6):
            # the undefined name is listed after an engine command in the same do list
            cmd = ["fail", "noop", "continue", "retry"][which - 3]
            if ch.flag("list"):
                d["tasks"]["t1"]["next"].append({"when": "<% failed() %>", "do": [cmd, "nowhere"]})
            else:
                d["tasks"]["t1"]["next"].append({"when": "<% failed() %>", "do": cmd + ", nowhere"})
        else:
            # the undefined name sits behind a task that is itself listed after an engine command
            d["tasks"]["t1"]["next"].append({"when": "<% failed() %>", "do": ["fail", "t3"]})
            d["tasks"]["t2"].pop("next")
            d["tasks"]["t3"]["next"] = [{"do": "nowhere"}]
        r = native_specs.WorkflowSpec(d).inspect()
        if not any("nowhere" in e.get("message", "") for e in r.get("semantics", [])):
            fail("undefined-task-not-reported", "inspection accepts a reachable transition to the undefined task 'nowhere': %s" % r, d, which=which)
    elif kind == "reserved-name":
        cmd = ["noop", "fail", "continue", "retry"][ch.pick("cmd", 4)]
        t = ["t1", "t2", "t3"][ch.pick("task", 3)]
        text = json.dumps(d["tasks"]).replace('"%s"' % t, '"%s"' % cmd)
        d["tasks"] = json.loads(text)
        r = native_specs.WorkflowSpec(d).inspect()
        if not any(cmd in e.get("message", "") for e in r.get("semantics", []) + r.get("syntax", [])):
            fail("reserved-name-not-reported", "inspection accepts a task named like the engine command %r: %s" % (cmd, r), d, cmd=cmd)
    elif kind == "no-start":
        which = ch.pick("which", 2)
        if which == 0:
            d["tasks"]["t3"]["next"] = [{"do": "t1"}]
        else:
            d["tasks"]["t2"]["next"] = [{"do": ["t3", "t1"]}]
        r = native_specs.WorkflowSpec(d).inspect()
        if not any("start" in e.get("message", "") for e in r.get("semantics", [])):
            fail("no-start-not-reported", "inspection accepts a definition without a start task: %s" % r, d, which=which)
    elif kind == "back-edge":
        form = FORMS[ch.pick("form", 8)]
        where = ch.pick("where", 4)
        d = {"version": 1.0, "vars": [{"n": 0}], "tasks": {
            "init": {"action": "core.noop", "next": [{"do": "work"}]},
            "work": {"action": "core.noop", "next": [{"when": "<% succeeded() %>", "do": "check"}, {"when": "<% failed() %>", "do": "work"}]},
            "check": {"action": "core.noop", "next": [{"when": "<% ctx().n < 2 %>", "publish": [{"n": "<% ctx().n + 1 %>"}], "do": "work"}, {"when": "<% ctx().n >= 2 %>", "do": "done"}]},
            "done": {"action": "core.noop"},
        }}
        if where == 0:
            d["tasks"]["work"]["next"][1]["when"] = form
        elif where == 1:
            d["tasks"]["work"]["next"][1]["publish"] = [{"q": form}]
        elif where == 2:
            d["tasks"]["check"]["next"][0]["when"] = form
        else:
            d["tasks"]["check"]["next"][0]["publish"] = [{"n": form}]
        r = native_specs.WorkflowSpec(d).inspect()
        if not any("zz" in e.get("message", "") and "referenced before assignment" in e.get("message", "") for e in r.get("context", [])):
            fail("unassigned-not-reported", "inspection accepts the reference %r on a transition back into an already inspected task (site %d): %s" % (form, where, r), d, form=form, site=where)
    elif kind == "branch-leak":
        # a variable published only on a parallel branch is referenced where nothing upstream assigns it;
        # no input/vars, so start tasks begin with an empty set of assigned variables
        names = [("a1", "a2", "b1", "b2"), ("b1", "b2", "a1", "a2"), ("m1", "m2", "a1", "a2"), ("a1", "a2", "z1", "z2")][ch.pick("names", 4)]
        pub, ref = names[0], names
        form = FORMS[ch.pick("form", 8)].replace("zz", "x")
        d = {"version": 1.0, "tasks": {
            pub: {"action": "core.noop", "next": [{"publish": [{"x": 1}], "do": ref_to(pub, ref, 0)}]},
            ref_to(pub, ref, 0): {"action": "core.noop"},
            ref_to(pub, ref, 1): {"action": "core.noop", "next": [{"do": ref_to(pub, ref, 2)}]},
            ref_to(pub, ref, 2): {"action": "core.echo", "input": {"m": form}},
        }}
        r = native_specs.WorkflowSpec(d).inspect()
        if not any('"x"' in e.get("message", "") and "referenced before assignment" in e.get("message", "") for e in r.get("context", [])):
            fail("unassigned-not-reported", "inspection accepts the reference %r in a task that only a parallel branch's publish precedes: %s" % (form, r), d, form=form)
    if twin:
        fail("reachability-twin", "mutant inspected", d)
    return {"kind": kind}


_SPECS = {}


def build(bits, joins):
    tasks = {}
    for i, n in enumerate(NAMES):
        spec = {"action": "core.noop"}
        tg = [NAMES[j] for j in range(3) if bits[i][j]]
        if tg:
            spec["next"] = [{"when": "<% succeeded() and result().c0 %>", "do": tg}, {"when": "<% failed() %>", "do": "noop"}]
        if joins[i]:
            spec["join"] = "all"
        tasks[n] = spec
    return {"version": 1.0, "tasks": tasks}


def forward(ch, ctx, steps=5, twin=False, order=False, bits=False, fanout="pairs"):
    if fanout == "subset":
        bits = [[ch.flag("e%d%d" % (i, j)) for j in range(3)] for i in range(3)]
    else:
        # at most two targets per task: none, one of the three, or one of the three pairs
        opts = [[], [0], [1], [2], [0, 1], [0, 2], [1, 2]] if fanout == "pairs" else [[], [0], [1], [2]]
        bits = []
        for i in range(3):
            o = opts[ch.pick("t%d" % i, len(opts))]
            bits.append([j in o for j in range(3)])
    inbound = [sum(1 for i in range(3) if bits[i][j]) for j in range(3)]
    joins = [inbound[j] >= 2 and ch.flag("j%d" % j) for j in range(3)]
    defn = build(bits, joins)
    key = json.dumps(defn, sort_keys=True)
    if key not in _SPECS:
        sp_ = native_specs.WorkflowSpec(json.loads(key))
        _SPECS[key] = (sp_, sp_.inspect())
    spec, report = _SPECS[key]
    c = ctx["counters"]
    if report:
        c["c15_rejected"] = c.get("c15_rejected", 0) + 1
        return {"definition": defn, "result": "rejected"}
    c["c15_conducted"] = c.get("c15_conducted", 0) + 1
    env = Env(ch, RawDef("fam", spec, {}), "C15", monitors=[], policy=Policy(steps=steps, bits=bits, by_task=True, order=order))
    env.wf.tasks = {n: {} for n in NAMES}
    env.wf.transitions = lambda t: [("c0", [], [])]
    try:
        env.run()
    except Violation as v:
        v.definition = "family"
        v.msg += " | definition: " + json.dumps(defn)
        v.log = list(env.log) + [json.dumps(defn)]
        raise
    if twin:
        v = Violation("C15", "reachability-twin", "accepted definition conducted: " + " ".join(env.log), {})
        v.definition = "family"
        raise v
    return {"definition": defn, "history": " ".join(env.log), "status": env.status()}


def obligations(tier):
    obs = []
    for kind in ("unassigned", "self-reference", "back-edge", "branch-leak", "grammar", "undefined-task", "reserved-name", "no-start"):
        o = ob("C15", "e2c.converse." + kind, "vt.harness.C15:converse", {"kind": kind}, timeout=900)
        o["antecedents"] = ["c15_mutants"]
        obs.append(o)
    if tier == "quick":
        base = ob("C15", "e2c.forward", "vt.harness.C15:forward", {"steps": 4, "fanout": "single"}, timeout=1800)
        base["antecedents"] = ["c15_conducted"]
        for i in range(16):
            d = dict(base)
            d["id"] = "C15.e2c.forward#%d" % i
            d["fixed"] = {"t0": i % 4, "t1": i // 4}
            obs.append(d)
    else:
        base = ob("C15", "e2c.forward", "vt.harness.C15:forward", {"steps": 5, "order": True, "fanout": "pairs"}, timeout=7200)
        base["antecedents"] = ["c15_conducted"]
        for i in range(49):
            d = dict(base)
            d["id"] = "C15.e2c.forward#%d" % i
            d["fixed"] = {"t0": i % 7, "t1": i // 7}
            obs.append(d)
    obs.append(ob("C15", "twin.forward", "vt.harness.C15:forward", {"steps": 4, "twin": True}, timeout=120))
    return obs
