"""C01 - every task execution is justified by the definition, exactly once."""
from vt.harness.common import history_body, ob
from vt.monitors import C01Justified, OracleTracker


def justified(ch, ctx, did, **kw):
    return history_body("C01", lambda: [OracleTracker(), C01Justified()], ch, ctx, did, **kw)


def obligations(tier):
    obs = []
    quick = [("D01", 4), ("D02", 5), ("D03", 5), ("D04", 5), ("D05a", 6), ("D06", 7), ("D08", 4), ("D09", 8), ("D09b", 8), ("D12", 7), ("D15", 4), ("D17", 5), ("D30", 4)]
    for did, steps in quick:
        obs.append(ob("C01", "e2c." + did, "vt.harness.C01:justified", {"did": did, "steps": steps, "bits": True}, timeout=900))
    # nested split + join: every task of the split branch runs once per route; outcomes all succeed, two-way interleaving
    o = ob("C01", "e2c.D14", "vt.harness.C01:justified", {"did": "D14", "steps": 11, "statuses": ["succeeded"], "max_inflight": 2}, timeout=1800)
    o["antecedents"] = ["c01_final"]
    obs.append(o)
    o = ob("C01", "e2c.lazy.D14", "vt.harness.C01:justified", {"did": "D14", "steps": 11, "statuses": ["succeeded"], "max_inflight": 1, "order": False, "lazy_start": 3}, timeout=1800)
    obs.append(o)
    o = ob("C01", "e2c.requested.D12", "vt.harness.C01:justified", {"did": "D12", "steps": 7, "requested_first": True}, timeout=900)
    o["antecedents"] = ["c01_final"]
    obs.append(o)
    o = ob("C01", "e2c.raw.D03r", "vt.harness.C01:justified", {"did": "D03r", "steps": 4, "bits": True, "statuses": ["succeeded"], "bit_values": [True, False, None, "", [], {}, 0, "x"]}, timeout=900)
    o["antecedents"] = ["c01_final"]
    obs.append(o)
    # a loop whose body leaves the loop on every iteration into a multi-referenced task (one new route per firing)
    o = ob("C01", "e2c.D29", "vt.harness.C01:justified", {"did": "D29", "steps": 7}, timeout=900)
    obs.append(o)
    o = ob("C01", "e2c.lazy.D29", "vt.harness.C01:justified", {"did": "D29", "steps": 7, "statuses": ["succeeded"], "lazy_start": 3}, timeout=1200)
    obs.append(o)
    obs.append(ob("C01", "twin.D03", "vt.harness.C01:justified", {"did": "D03", "steps": 5, "bits": True, "twin": True}, timeout=60))
    for o in obs:
        if "e2c." in o["id"]:
            o["antecedents"] = ["c01_final"]
    return obs
