"""C17 - rerun re-executes only what was asked and converges to the clean outcome."""
from orquesta import statuses as S

from vt import defs
from vt.choice import ForcedChooser
from vt.env import Env, Policy, Violation, outcome
from vt.harness.common import ob, rerun_sets
from vt.monitors import C17Rerun, OracleTracker, count


OWN_THOROUGH = True


def rerun_twin(ch, ctx, did, steps, mode="explicit", ghost=False, twin=False, rerun_order=True, statuses=None):
    wf = defs.get(did)
    sts = tuple(statuses) if statuses else (S.SUCCEEDED, S.FAILED)
    pol = Policy(rerun_order=rerun_order, statuses=sts, steps=steps, by_task=True, tokens=True, rerun=mode, rerun_steps=steps, rerun_ok=True, rerun_ghost=ghost)
    env = Env(ch, wf, "C17", monitors=[OracleTracker(), C17Rerun()], policy=pol)
    env.counters = ctx["counters"]
    try:
        env.run()
        if env.rerun_done and env.rerun_rejected is None and not env.inflight:
            redone = {a.okey for a in env.started[env.rerun_mark:] if getattr(a, "okey", None)}
            win = True if len(sts) == 2 else 0
            clean = Env(ForcedChooser(ch, {k: win for k in redone}), wf, "C17", monitors=[], policy=Policy(steps=2 * steps + 2, by_task=True, tokens=True, statuses=sts))
            clean.run()
            if not clean.inflight:
                count(env, "c17_twin_compared")
                a, b = outcome(env), outcome(clean)
                hist = "rerun history: %s | clean run (failures of %s flipped): %s" % (" ".join(env.log), sorted(redone), " ".join(clean.log))
                if a["status"] != b["status"]:
                    raise Violation("C17", "twin-status", "C17 the rerun ended %s, the run in which the re-executed actions had succeeded the first time ends %s | %s" % (a["status"], b["status"], hist), {"requested": ",".join(env.rerun_names) or "default"})
                if a["status"] == S.SUCCEEDED and a["output"] != b["output"]:
                    oa, ob_ = a["output"] or {}, b["output"] or {}
                    var = sorted(k for k in set(oa) | set(ob_) if oa.get(k) != ob_.get(k))[0]
                    pubs = [t for t in wf.tasks for _, ps, _ in wf.transitions(t) for p in ps if (p if isinstance(p, str) else p[0]) == var]
                    redone_tasks = {x.task for x in env.started[env.rerun_mark:]}
                    facts = {
                        "direction": "lost" if oa.get(var) is None else ("extra" if ob_.get(var) is None else "changed"),
                        "publisher_reexecuted": any(t in redone_tasks for t in pubs),
                        "join_reexecuted": any(t in wf.tasks and wf.is_join(t) for t in redone_tasks),
                    }
                    raise Violation("C17", "twin-output", "C17 the rerun (%s) rendered %r, the clean run %r: %s, published by %s, differs | %s" % (",".join(env.rerun_names) or "default", a["output"], b["output"], var, pubs, hist), facts)
    except Violation as v:
        v.definition = did
        v.log = list(env.log)
        v.calls = list(env.calls)
        raise
    if twin:
        v = Violation("C17", "reachability-twin", "end reached: " + " ".join(env.log), {})
        v.definition = did
        raise v
    return env.summary()


def probe(ch, ctx, did, **kw):
    from vt.harness.common import history_body

    return history_body("C17", lambda: [], ch, ctx, did, **kw)


def obligations(tier):
    obs = []
    ante = ["c17_requests", "c17_reexecuted", "c17_twin_compared"]
    for did, steps in [("D01", 3), ("D04", 4), ("D07", 4), ("D11", 4), ("D12p", 5), ("D18", 5), ("D10", 5)]:
        o = ob("C17", "e2c.default." + did, "vt.harness.C17:rerun_twin", {"did": did, "steps": steps, "mode": "default"}, timeout=900)
        o["antecedents"] = ante
        obs.append(o)
    sets = [("D18", 5, ["a/0", "b/0", "c/0", "j/0"]), ("D04", 4, ["a/0", "b/0", "j/0"]), ("D11", 4, ["w/0", "z/0"]), ("D01", 3, ["a/0", "b/0", "c/0"]), ("D11u", 5, ["t1/0", "w/0"])]
    if tier != "quick":
        sets = [("D18", 5, ["s/0", "a/0", "b/0", "c/0", "j/0"]), ("D04", 4, ["s/0", "a/0", "b/0", "j/0"]), ("D11", 4, ["w/0", "z/0"]), ("D01", 3, ["a/0", "b/0", "c/0"]), ("D12p", 6, ["a/0", "b/0", "c/0", "r/0", "j/0"])]
    for did, steps, labels in sets:
        o = ob("C17", "e2c.explicit." + did, "vt.harness.C17:rerun_twin", {"did": did, "steps": steps, "mode": "explicit", "rerun_order": False}, timeout=900 if tier == "quick" else 3600)
        o["antecedents"] = ante
        if tier == "quick" and did == "D18":
            obs.extend(rerun_sets(o, labels, 1))
            o2 = dict(o)
            o2["id"] = o["id"] + "@a+c"
            o2["fixed"] = {"rr:a/0": True, "rr:c/0": True, "rr:b/0": False, "rr:j/0": False}
            obs.append(o2)
        else:
            obs.extend(rerun_sets(o, labels, 2 if tier == "quick" else 3))
    for mode in ("default", "explicit"):
        o = ob("C17", "e2c.%s.abend.D11" % mode, "vt.harness.C17:rerun_twin", {"did": "D11", "steps": 4, "mode": mode, "statuses": ["succeeded", "failed", "timeout", "abandoned"], "rerun_order": False}, timeout=900)
        o["antecedents"] = ante
        obs.append(o)
    for did, steps in [("D01", 3), ("D04", 4), ("D11", 4)]:
        o = ob("C17", "e2c.probe." + did, "vt.harness.C17:probe", {"did": did, "steps": steps, "control": "either", "rerun_probe": True}, timeout=900)
        o["antecedents"] = ["rerun_probes"]
        obs.append(o)
    o = ob("C17", "e2c.ghost.D04", "vt.harness.C17:rerun_twin", {"did": "D04", "steps": 4, "mode": "explicit", "ghost": True}, timeout=900)
    o["fixed"] = {"rr:ghost": True}
    o["antecedents"] = ["c17_rejected"]
    obs.append(o)
    obs.append(ob("C17", "twin.D04", "vt.harness.C17:rerun_twin", {"did": "D04", "steps": 4, "mode": "default", "twin": True}, timeout=120))
    return obs
