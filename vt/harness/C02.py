"""C02 - reported workflow status is truthful about the tasks."""
from orquesta import statuses as S

from vt.harness import A5, kernels
from vt.harness.common import history_body, ob
from vt.monitors import C02Truth, OracleTracker


def lifecycle(ch, ctx, did, **kw):
    return history_body("C02", lambda: [OracleTracker(), C02Truth()], ch, ctx, did, **kw)


QUICK = ["D02", "D03", "D04", "D06", "D07", "D08", "D12"]


def obligations(tier):
    obs = [kernels.e1("C02", "L1_succeeded_truthful", "L1_succeeded_truthful", timeout=600), kernels.e1("C02", "L2_rest_means_dormant", "L2_rest_means_dormant", timeout=600), kernels.e1("C02", "L3_ing_means_active", "L3_ing_means_active", timeout=600), kernels.e1("C02", "L6_unhandled_failure_fails", "L6_unhandled_failure_fails", timeout=600)]
    for did in QUICK:
        obs.append(ob("C02", "e2c." + did, "vt.harness.C02:lifecycle",
                      {"did": did, "steps": 5, "control": "either", "bits": True}, timeout=600))
    for did in ("D02", "D12"):
        o = ob("C02", "e2c.early." + did, "vt.harness.C02:lifecycle", {"did": did, "steps": 5, "control": "pause", "early_resume": True}, timeout=900)
        obs.append(o)
    from vt import defs as _defs

    did = _defs.items_def(3, 2).id
    o = ob("C02", "e2c.cascade.items", "vt.harness.C02:lifecycle", {"did": did, "steps": 6, "control": "either", "intermediate": True, "statuses": ["succeeded", "canceled"]}, timeout=1200)
    from vt.harness.common import control_slices as _cs

    obs.extend(_cs(o, 4))
    obs.append(ob("C02", "twin.D04", "vt.harness.C02:lifecycle", {"did": "D04", "steps": 5, "twin": True}, timeout=60))
    obs.append(A5.obligation("C02", tier))
    return obs
