"""C19 - conducting is deterministic and asking for next tasks is a pure query.

(a) Pure query: at every point of bounded symbolic histories, a second get_next_tasks() call
    returns the same answer and leaves the persisted state as the first call left it.
(b) Hash-seed independence: every `set` the orquesta modules build is replaced by a set whose
    iteration order is a symbolic rotation (an over-approximation of PYTHONHASHSEED for sets of
    strings); inspection report, composed graph and the whole conducting history (offers and
    persisted state after every event, incl. an explicit rerun) must equal the canonical order.
    A divergence is reported only after native runs under different real hash seeds differ."""
import hashlib
import importlib
import json
import os
import subprocess
import sys

import vt  # noqa: F401

from vt import defs
from vt.choice import ReplayChooser
from vt.env import Env, Policy, Violation
from vt.harness.common import history_body, ob
from vt.monitors import C19PureQuery, count

MODULES = [
    "orquesta.conducting", "orquesta.composers.native", "orquesta.specs.base", "orquesta.specs.native.v1.models",
    "orquesta.expressions.base", "orquesta.expressions.yql", "orquesta.expressions.jinja",
    "orquesta.expressions.functions.workflow", "orquesta.utils.schema", "orquesta.graphing", "orquesta.machines",
]

ROT = {"ch": None, "n": 0, "max": 6, "sites": set()}


def _stringy(x):
    return isinstance(x, str) or (isinstance(x, tuple) and any(_stringy(y) for y in x))


class PermSet(set):
    """A set whose iteration order is a rotation chosen by the environment."""

    def __iter__(self):
        items = list(set.__iter__(self))
        try:
            items = sorted(items, key=repr)
        except Exception:
            pass
        n = len(items)
        ch = ROT["ch"]
        if ch is not None and n > 1 and any(_stringy(x) for x in items):
            # one rotation variable per code site (a hash seed orders a given site consistently)
            f = sys._getframe(1)
            site = "%s:%d" % (os.path.basename(f.f_code.co_filename), f.f_lineno)
            if site not in ROT["sites"] and len(ROT["sites"]) >= ROT["max"]:
                return iter(items)
            ROT["sites"].add(site)
            k = ch.pick("rot@" + site, 3) % n
            ROT["n"] += 1
            items = items[k:] + items[:k]
        return iter(items)

    def __or__(self, o):
        return PermSet(set.__or__(self, o))

    def __sub__(self, o):
        return PermSet(set.__sub__(self, o))

    def __and__(self, o):
        return PermSet(set.__and__(self, o))


def inject(on):
    for name in MODULES:
        try:
            mod = importlib.import_module(name)
        except Exception:
            continue
        if on:
            mod.set = PermSet
        elif "set" in mod.__dict__:
            del mod.__dict__["set"]


INSPECT_DEF = {
    "version": 1.0,
    "input": ["a", "b"],
    "vars": [{"c": "<% ctx().a %>"}],
    "tasks": {
        "t1": {"action": "core.echo", "input": {"m1": "<% ctx().zz %> one", "m2": "<% ctx().zz %> two", "m3": "{{ ctx().zz }} three"},
               "next": [{"publish": [{"d": "<% ctx().b %>"}, {"e": "<% ctx().yy %>"}], "do": "t2, t3"}]},
        "t2": {"action": "core.noop", "next": [{"do": "t4"}]},
        "t3": {"action": "core.noop", "next": [{"do": "t4"}]},
        "t4": {"join": "all", "action": "core.echo", "input": {"message": "<% ctx().d %><% ctx().ww %>"}},
    },
}


def observe(scenario, ch):
    """Everything C19 names: inspection report, composed graph, offers in order, persisted
    state after every event, errors and output, for a fixed history."""
    from orquesta.specs import native as native_specs

    out = {}
    if scenario["kind"] == "inspect":
        spec = native_specs.WorkflowSpec(json.loads(json.dumps(INSPECT_DEF)))
        out["inspect"] = spec.inspect()
        from orquesta.composers import native as comp

        out["graph"] = comp.WorkflowComposer.compose(spec).serialize()
        return out
    wf = defs.get(scenario["did"]) if scenario.get("did") else defs.parallel_roots(scenario.get("roots", 3))
    wf._spec = None
    trace = []

    class Rec(C19PureQuery):
        def after_call(self, env, name):
            if name in ("update_task_state", "request_workflow_rerun", "request_workflow_status"):
                trace.append(env.snapshot())

    pol = Policy(steps=scenario["steps"], tokens=True, order=False, rerun=scenario.get("rerun"), rerun_steps=scenario["steps"], rerun_ok=True, rerun_order=False)
    env = Env(ReplayChooser(scenario["decisions"]), wf, "C19", monitors=[Rec()], policy=pol)
    env.run()
    out["offers"] = env.offer_log
    out["trace"] = trace
    out["graph"] = env.c.graph.serialize()
    out["final"] = env.snapshot()
    return out


def digest(o):
    return hashlib.sha256(json.dumps(o, sort_keys=True, default=str).encode()).hexdigest()


def seed_search(scenario, seeds=range(0, 24)):
    """Native runs of the same scenario (no set perturbation) under real hash seeds."""
    digs = {}
    for s in seeds:
        env = dict(os.environ, PYTHONHASHSEED=str(s), PYTHONPATH=vt.ROOT)
        p = subprocess.run([sys.executable, "-m", "vt.harness.C19", json.dumps(scenario)], env=env, capture_output=True, text=True, cwd=vt.ROOT)
        d = p.stdout.strip().splitlines()[-1] if p.stdout.strip() else "error:" + p.stderr[-200:]
        digs.setdefault(d, []).append(s)
    return digs


def set_order(ch, ctx, scenario, twin=False):
    ROT.update(ch=None, n=0)
    base = observe(scenario, None)
    ROT.update(ch=ch, n=0, sites=set(), max=scenario.get("max_sites", 4))
    inject(True)
    try:
        got = observe(scenario, ch)
    finally:
        inject(False)
        ROT.update(ch=None)
    ctx["counters"]["c19_orders"] = ctx["counters"].get("c19_orders", 0) + 1
    ctx["counters"]["c19_perturbed_iterations"] = ctx["counters"].get("c19_perturbed_iterations", 0) + ROT["n"]
    if got != base:
        part = [k for k in base if base[k] != got.get(k)]
        if not ch.symbolic:
            digs = seed_search(scenario)
            if len(digs) < 2:
                return {"divergence_not_reproduced_under_real_seeds": part}
            detail = "; real hash seeds split into %d groups: %s" % (len(digs), sorted(digs.values())[:4])
        else:
            detail = ""
        v = Violation("C19", "set-order-dependence", "C19 %s of scenario %s depends on set iteration order (hash seed)%s" % (part, scenario.get("did") or scenario["kind"], detail), {"part": ",".join(part)})
        v.definition = scenario.get("did") or scenario["kind"]
        v.log = [json.dumps(scenario)]
        raise v
    if twin:
        v = Violation("C19", "reachability-twin", "orders compared", {})
        v.definition = "twin"
        raise v
    return {"scenario": scenario.get("did") or scenario["kind"], "rotations": ROT["n"]}


def pure(ch, ctx, did, **kw):
    return history_body("C19", lambda: [C19PureQuery()], ch, ctx, did, **kw)


def obligations(tier):
    obs = []
    for did, steps in [("D02", 5), ("D04", 5), ("D06p", 4), ("D09b", 8), ("D10", 5), ("D11", 5), ("D12p", 6), ("D13i", 4)]:
        o = ob("C19", "e2c.pure." + did, "vt.harness.C19:pure", {"did": did, "steps": steps, "tokens": True, "control": "either"}, timeout=900)
        o["antecedents"] = ["c19_query_pairs"]
        obs.append(o)
    scen = [
        ("inspect", {"kind": "inspect"}),
        ("D12p", {"kind": "run", "did": "D12p", "steps": 7, "decisions": {"o0": True, "o1": True, "o2": True, "o3": True, "o4": True, "o5": True, "o6": True}}),
        ("D06p", {"kind": "run", "did": "D06p", "steps": 7, "decisions": {"o%d" % i: True for i in range(8)}}),
        ("rerun3", {"kind": "run", "roots": 3, "steps": 3, "rerun": "explicit", "decisions": {"o0": False, "o1": False, "o2": False, "rr:t0/0": True, "rr:t1/0": True, "rr:t2/0": True}}),
        ("D13i", {"kind": "run", "did": "D13i", "steps": 4, "decisions": {"o%d" % i: True for i in range(5)}}),
    ]
    for name, sc in scen:
        sc = dict(sc, max_sites=4 if tier == "quick" else 6)
        o = ob("C19", "e2c.setorder." + name, "vt.harness.C19:set_order", {"scenario": sc}, timeout=900)
        o["antecedents"] = ["c19_perturbed_iterations"]
        obs.append(o)
    obs.append(ob("C19", "twin.setorder", "vt.harness.C19:set_order", {"scenario": scen[0][1], "twin": True}, timeout=120))
    return obs


if __name__ == "__main__":
    sc = json.loads(sys.argv[1])
    print(digest(observe(sc, None)))
