"""C16 - values flow through unchanged; evaluation is pure; internals stay hidden.

E1 (CrossHair, symbolic values through the real evaluators and helpers): every documented
single-reference form in YAQL and Jinja returns a symbolic integer / boolean / None / nested
container unchanged in type and value and leaves the context unchanged (all integers, unbounded);
ctx() never returns a double-underscore name (all keys over a small alphabet); merge_dicts.
E3 (z3 over the live delimiter regexes): a string without an expression delimiter is matched by
no evaluator, so evaluate() returns it as it is.
E2c: a solver-chosen value from a catalogue of awkward JSON values (integers beyond 64 bits,
float extremes, look-alike strings, unicode, nesting) travels input -> context -> action input ->
result -> publish -> re-publish over an ==-equal value -> output, in both languages, with a
persist/restore between the steps.
Outside: floating point and non-ASCII text are only sampled, not decided symbolically; the C
code of ujson is not encoded."""
import json
import re._parser as sp

import vt  # noqa: F401

import z3

from orquesta import statuses as S
from orquesta.expressions import base as E
from orquesta.specs import native as native_specs

from vt.env import Env, Policy, Violation
from vt.harness.C11 import RawDef
from vt.harness.common import ob
from vt.rx import anychar, ch, tr

LEVEL = "other"
EXPLANATION = ("E1 CrossHair lemmas on the real evaluators/helpers with symbolic values (unbounded ints), an E3 z3 lemma on the live delimiter regexes, "
               "and a solver-enumerated catalogue of awkward JSON values through the whole data path of the real conductor")

VALUES = [0, -1, 2 ** 31, 2 ** 63 - 1, 2 ** 63, 2 ** 64, 2 ** 64 + 1, -2 ** 63 - 1, 10 ** 30, 1.5, 1e308, 5e-324, -0.0, 1e16, 0.1 + 0.2, True, False, None,
          "", "abc", "123", "1.0", "true", "null", "None", "%s %d", "{0}", "{}", "[1, 2]", '{"a": 1}', "a\nb", "é中", "\U0001F600", "it's", 'say "hi"', " lead", "x=1", "a\n", "\n", "two\n\n", "x\r\ny", "cr\r", "{# note #}", "a {# b #} c", "tab\there", "  ", "{ {", "% >", "100%",
          [], {}, [1, [2, [3]]], {"k": {"n": [1, "2", None]}}, [True, None, 1.5, "s"], {"1": 1}, [{"a": []}, {}]]
# (current value, re-published value): equal under ==, different JSON values
EQ_PAIRS = [(1, True), (0, False), (True, 1), (1, 1.0), (0.0, 0), ([1, 0], [True, False]), ({"a": 1}, {"a": True}), (2 ** 53, float(2 ** 53)), ("1", 1), (None, 0)]


OWN_THOROUGH = True


def same(a, b):
    if type(a) is not type(b):
        return False
    if isinstance(a, float):
        return repr(a) == repr(b)
    if isinstance(a, list):
        return len(a) == len(b) and all(same(x, y) for x, y in zip(a, b))
    if isinstance(a, dict):
        return sorted(a) == sorted(b) and all(same(a[k], b[k]) for k in a)
    return a == b


def wf(lang):
    e = (lambda b: "<% " + b + " %>") if lang == "yaql" else (lambda b: "{{ " + b + " }}")
    q = (lambda n: "ctx(" + n + ")") if lang == "yaql" else (lambda n: "ctx('" + n + "')")
    return {
        "version": 1.0,
        "input": ["v", "w"],
        "tasks": {
            "t1": {"action": "core.echo", "input": {"a": e("ctx().v"), "b": e(q("v"))},
                   "next": [{"publish": [{"r": e("result()")}, {"w": e("result()")}, {"v2": e("ctx().v")}], "do": "t2"}]},
            "t2": {"action": "core.echo", "input": {"a": e("ctx().r"), "b": e(q("w")), "c": e("ctx().v2")}},
        },
        "output": [{"o1": e("ctx().r")}, {"o2": e("ctx().w")}, {"o3": e("ctx().v2")}, {"all": e("ctx()")}],
    }


SPECS = {}


def spec(lang):
    if lang not in SPECS:
        s = native_specs.WorkflowSpec(wf(lang))
        assert not s.inspect(), s.inspect()
        SPECS[lang] = s
    return SPECS[lang]


def data_path(ch, ctx, lang, pairs=False, twin=False):
    if pairs:
        old, v = EQ_PAIRS[ch.pick("pair", len(EQ_PAIRS))]
    else:
        v = VALUES[ch.pick("value", len(VALUES))]
        old = "previous"
    crash = ch.flag("persist_between_steps")
    c = ctx["counters"]
    c["c16_values"] = c.get("c16_values", 0) + 1
    env = Env(ch, RawDef("V[%s]" % lang, spec(lang), {"v": v, "w": old}), "C16", monitors=[], policy=Policy(steps=2, order=False))

    def fail(stage, got):
        x = Violation("C16", "value-changed", "C16 the value %r (%s) arrives at %s as %r (%s) [%s%s]" % (v, type(v).__name__, stage, got, type(got).__name__, lang, ", persisted between steps" if crash else ""), {"stage": stage, "type": type(v).__name__})
        x.definition = "V[%s]" % lang
        x.log = list(env.log)
        raise x

    try:
        env.start()
        t = env.last_offer
        if not t:
            fail("the first task (nothing offered: %s)" % env.c.errors[:1], None)
        inp = t[0]["actions"][0]["input"]
        for k in "ab":
            if not same(inp[k], v):
                fail("action input " + k, inp[k])
        if crash:
            env.crash()
        env.report(0, S.SUCCEEDED, v)
        if crash:
            env.crash()
        t = env.offers()
        if not t:
            fail("the second task (nothing offered: %s)" % env.c.errors[:1], None)
        inp = t[0]["actions"][0]["input"]
        for k, name in (("a", "published r"), ("b", "re-published w"), ("c", "published v2")):
            if not same(inp[k], v):
                fail("t2 action input %s (%s)" % (k, name), inp[k])
        env.report(0, S.SUCCEEDED, None)
        if crash:
            env.crash()
        env.offers()
        env.render_output()
        out = env.c.get_workflow_output() or {}
        for k in ("o1", "o2", "o3"):
            if not same(out.get(k), v):
                fail("output " + k, out.get(k))
        leaked = [k for k in (out.get("all") or {}) if k.startswith("__")]
        if leaked:
            x = Violation("C16", "internal-name-leaked", "C16 the output of ctx() contains internal names %s" % leaked, {})
            x.definition = "V[%s]" % lang
            raise x
        for cx in env.c.workflow_state.contexts:
            if any(k.startswith("__") for k in cx):
                x = Violation("C16", "internal-name-published", "C16 a published context contains internal names: %s" % [k for k in cx if k.startswith("__")], {})
                x.definition = "V[%s]" % lang
                raise x
    except Violation as x:
        x.definition = x.definition or "V[%s]" % lang
        x.log = list(env.log)
        raise
    if twin:
        x = Violation("C16", "reachability-twin", "value travelled the whole path", {})
        x.definition = "twin"
        raise x
    return {"value": repr(v)[:60], "lang": lang, "persisted": crash}


def no_leak(ch, ctx, lang, twin=False):
    """Two satisfied transitions of one task: what the first publishes (x := result) must not be
    visible to the second (y := ctx(x) is the workflow input x)."""
    e = (lambda b: "<% " + b + " %>") if lang == "yaql" else (lambda b: "{{ " + b + " }}")
    v = VALUES[ch.pick("value", len(VALUES))]
    d = {"version": 1.0, "input": ["x"], "tasks": {
        "t1": {"action": "core.noop", "next": [{"publish": [{"x": e("result()")}], "do": "a"}, {"publish": [{"y": e("ctx().x")}, {"d": {"b": 2}}], "do": "b"}]},
        "a": {"action": "core.echo", "input": {"m": e("ctx().x")}},
        "b": {"action": "core.echo", "input": {"m": e("ctx().y"), "d": e("ctx().get('d')") if lang == "jinja" else e("ctx().get(d)")}},
    }}
    key = "leak:" + lang
    if key not in SPECS:
        s = native_specs.WorkflowSpec(d)
        assert not s.inspect(), s.inspect()
        SPECS[key] = s
    c = ctx["counters"]
    c["c16_values"] = c.get("c16_values", 0) + 1
    env = Env(ch, RawDef("L[%s]" % lang, SPECS[key], {"x": "original"}), "C16", monitors=[], policy=Policy(steps=1, order=False))
    try:
        env.start()
        env.report(0, S.SUCCEEDED, v)
        offered = {t["id"]: t["actions"][0]["input"] for t in env.offers()}
        if not same(offered.get("a", {}).get("m"), v):
            x = Violation("C16", "value-changed", "C16 task a receives %r for the published result %r" % (offered.get("a"), v), {"stage": "publish"})
            raise x
        if offered.get("b", {}).get("m") != "original":
            x = Violation("C16", "context-modified-by-evaluation", "C16 the second transition of t1 sees x=%r, the context it is evaluated against has x='original' (what the first transition published leaked)" % (offered.get("b", {}).get("m"),), {"stage": "sibling-transition"})
            raise x
    except Violation as x:
        x.definition = "L[%s]" % lang
        x.log = list(env.log)
        raise
    if twin:
        x = Violation("C16", "reachability-twin", "done", {})
        x.definition = "twin"
        raise x
    return {"lang": lang, "value": repr(v)[:40]}


def delimiter_lemma(ob_):
    """E3: a string with no expression delimiter is matched by no evaluator (live patterns)."""
    maxlen = ob_["params"].get("maxlen", 10)
    ANY = z3.Star(anychar())
    s = z3.String("s")
    nq = 0
    evs = E.get_evaluators()
    samples = []
    for name, ev in evs.items():
        pats = [ev._regex_pattern] + ([ev._regex_block_pattern] if hasattr(ev, "_regex_block_pattern") else [])
        for pat in pats:
            r = tr(sp.parse(pat))
            sol = z3.Solver()
            sol.set("timeout", 60000)
            # every string the pattern matches begins with a delimiter; hence a string that
            # contains no delimiter contains no match (re.findall scans for matches of r)
            sol.add(z3.Length(s) <= maxlen)
            for d in ("<%", "{{", "{%"):
                sol.add(z3.Not(z3.PrefixOf(z3.StringVal(d), s)))
            sol.add(z3.InRe(s, r))
            nq += 1
            res = str(sol.check())
            samples.append({"evaluator": name, "pattern": pat, "result": res})
            if res == "sat":
                val = sol.model()[s].as_string()
                got = E.evaluate(val, {})
                if got != val or ev.has_expressions(val):
                    return {"verdict": "counterexample", "queries": nq, "paths": nq, "cex": {"args": {"text": val}, "message": "C16 the plain string %r (no delimiter) is treated as an expression by %s" % (val, name)}}
            elif res != "unsat":
                return {"verdict": "inconclusive", "message": "%s: %s" % (pat, res), "queries": nq, "paths": nq}
        # planted: with a delimiter the pattern does match
        sol = z3.Solver()
        sol.add(z3.Length(s) <= maxlen, z3.InRe(s, z3.Concat(ANY, tr(sp.parse(ev._regex_pattern)), ANY)))
        nq += 1
        if str(sol.check()) != "sat":
            return {"verdict": "error", "error": {"error": "planted query not sat for " + name}, "queries": nq}
    return {"verdict": "confirmed", "queries": nq, "paths": nq, "distinct": nq, "samples": samples}


def confirm(ob_, cex):
    a = (cex or {}).get("args") or {}
    if "text" in a:
        got = E.evaluate(a["text"], {})
        if got != a["text"]:
            return {"violation": {"prop": "C16", "monitor": "plain-string-evaluated", "message": cex.get("message")}}
        return {"violation": None}
    if cex and cex.get("lemma", "").startswith("K-") and "x" in a:
        x = a["x"]
        for f in ["<% ctx().x %>", "<% ctx(x) %>", "<% ctx('x') %>", '<% ctx("x") %>', "{{ ctx().x }}", "{{ ctx('x') }}", '{{ ctx("x") }}']:
            data = {"x": x}
            r = E.evaluate(f, data)
            if r != x or type(r) is not type(x) or data != {"x": x}:
                return {"violation": {"prop": "C16", "monitor": "reference-changes-value", "message": "C16 %s evaluated on x=%r gives %r (context afterwards %r)" % (f, x, r, data)}}
    if cex and "key" in a:
        from orquesta.expressions.functions import common as fcommon
        from orquesta import exceptions as exc
        ctxd = {"__vars": {a["key"]: "secret", "visible": 1}}
        try:
            got = fcommon.ctx_(ctxd, a["key"])
            if str(a["key"]).startswith("__"):
                return {"violation": {"prop": "C16", "monitor": "internal-name-readable", "message": "C16 ctx(%r) returns %r" % (a["key"], got)}}
        except exc.OrquestaException:
            pass
        allv = fcommon.ctx_(ctxd)
        if any(k.startswith("__") for k in allv):
            return {"violation": {"prop": "C16", "monitor": "internal-name-readable", "message": "C16 ctx() returns internal names %s" % list(allv)}}
    return {"violation": None, "note": "lemma failure not reproduced through the public functions"}


def obligations(tier):
    obs = []
    for fn in ("yaql_int", "jinja_int", "yaql_container", "ctx_hidden", "merge_preserves"):
        obs.append({"id": "C16.e1." + fn, "prop": "C16", "kind": "e1", "body": "vt.harness.C16k:" + fn, "params": {}, "fixed": {}, "timeout": 600})
    obs.append({"id": "C16.e3.delimiters", "prop": "C16", "kind": "e3", "body": "vt.harness.C16:delimiter_lemma", "params": {"maxlen": 10 if tier == "quick" else 16}, "fixed": {}, "timeout": 900})
    for lang in ("yaql", "jinja"):
        o = ob("C16", "e2c.path." + lang, "vt.harness.C16:data_path", {"lang": lang}, timeout=900)
        o["antecedents"] = ["c16_values"]
        obs.append(o)
        o = ob("C16", "e2c.republish." + lang, "vt.harness.C16:data_path", {"lang": lang, "pairs": True}, timeout=900)
        o["antecedents"] = ["c16_values"]
        obs.append(o)
    for lang in ("yaql", "jinja"):
        o = ob("C16", "e2c.noleak." + lang, "vt.harness.C16:no_leak", {"lang": lang}, timeout=600)
        o["antecedents"] = ["c16_values"]
        obs.append(o)
    obs.append(ob("C16", "twin.path", "vt.harness.C16:data_path", {"lang": "yaql", "twin": True}, timeout=120))
    return obs
