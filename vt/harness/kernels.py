"""E1 kernel lemmas: one real function, symbolic arguments / abstract pre-state, traced by
CrossHair so that z3 decides the assertion for all values (unbounded integers) or all
abstract states. A failing lemma is only a candidate; it becomes a VIOLATION only when the
property's module reproduces it through the public API (confirm())."""
import vt  # noqa: F401

from orquesta import conducting
from orquesta import constants
from orquesta import events
from orquesta import machines
from orquesta import statuses as S

from vt import lemma

WC = conducting.WorkflowConductor

# ------------------------------------------------------------------------------------------
# Workflow state machine: process_event on a task event from an arbitrary abstract pre-state.
# ------------------------------------------------------------------------------------------
WF_ST = list(machines.WORKFLOW_STATE_MACHINE_DATA.keys())
TK_ST = [s for s in S.ALL_STATUSES if ("task_%s" % s) in events.TASK_EXECUTION_EVENTS]


class AbsState(object):
    """What WorkflowStateMachine can observe of the workflow state, nothing else."""

    def __init__(self, status, act, pausing, paused, canceling, canceled, staged, nxt, bnxt, unr):
        self.status = status
        self.has_active_tasks = act
        self.has_pausing_tasks = pausing
        self.has_paused_tasks = paused
        self.has_canceling_tasks = canceling
        self.has_canceled_tasks = canceled
        self.has_staged_tasks = staged
        self._nxt = nxt
        self._bnxt = bnxt
        self._unr = unr
        self.conductor = self
        self.logged = 0

    def has_next_tasks(self, task_id=None, route=None):
        return self._nxt

    def has_barrier_next(self, task_id=None, route=None):
        return self._bnxt

    def get_unreachable_barriers(self):
        return [{"id": "j", "route": 0}] if self._unr else []

    def log_error(self, e, task_id=None, route=None):
        self.logged += 1


def pick(lst, i):
    for k in range(len(lst)):
        if i == k:
            return lst[k]
    return lst[0]


def inv(t, act, pausing, paused, canceling, canceled, nxt, bnxt):
    """Representation invariant: the event's own task is part of the state."""
    if t in S.ACTIVE_STATUSES and not act:
        return False
    if (pausing or canceling) and not act:
        return False
    if t == S.PAUSING and not pausing:
        return False
    if t in (S.PAUSED, S.PENDING) and not paused:
        return False
    if t == S.CANCELING and not canceling:
        return False
    if t == S.CANCELED and not canceled:
        return False
    if t not in S.COMPLETED_STATUSES and (nxt or bnxt):
        return False
    return True


def go(ws, ts, act, pausing, paused, canceling, canceled, staged, nxt, bnxt, unr):
    w = pick(WF_ST, ws)
    t = pick(TK_ST, ts)
    st = AbsState(w, act, pausing, paused, canceling, canceled, staged, nxt, bnxt, unr)
    machines.WorkflowStateMachine.process_event(st, events.TaskExecutionEvent("t", 0, t))
    return w, t, st.status


def machine_lemma(which: int, ws: int, ts: int, act: bool, pausing: bool, paused: bool, canceling: bool, canceled: bool, staged: bool, nxt: bool, bnxt: bool, unr: bool) -> bool:
    """
    pre: 0 <= ws < len(WF_ST) and 0 <= ts < len(TK_ST)
    pre: inv(pick(TK_ST, ts), act, pausing, paused, canceling, canceled, nxt, bnxt)
    post: True
    """
    lemma.path()
    w, t, new = go(ws, ts, act, pausing, paused, canceling, canceled, staged, nxt, bnxt, unr)
    a = dict(ws=w, ts=t, new=new, act=act, pausing=pausing, paused=paused, canceling=canceling, canceled=canceled, staged=staged, nxt=nxt, bnxt=bnxt, unr=unr)
    if which == 1:  # succeeded is truthful
        if new == "succeeded" and w != "succeeded":
            ok = (not act and not staged and not nxt and not pausing and not paused and not canceling and not canceled and not unr
                  and (t == "succeeded" or (t in ("failed", "timeout", "abandoned") and bnxt)))
            lemma.check(ok, "L1", "workflow becomes succeeded from %s on task_%s although work is pending/active or a failure is unhandled" % (w, t), **a)
    elif which == 2:  # paused/canceled means dormant
        if new in ("paused", "canceled") and new != w:
            lemma.check(not act, "L2", "workflow becomes %s from %s on task_%s while a task is active" % (new, w, t), **a)
    elif which == 3:  # pausing/canceling means active
        if new in ("pausing", "canceling") and new != w:
            lemma.check(act, "L3", "workflow becomes %s from %s on task_%s with no active task" % (new, w, t), **a)
    elif which == 4:  # terminal statuses are final under task events
        if w in ("failed", "canceled", "succeeded"):
            lemma.check(new == w or (unr and w != "canceled" and new == "failed"), "L4", "terminal %s changed to %s on task_%s" % (w, new, t), **a)
    elif which == 5:  # no stuck workflow
        if w in ("running", "resuming", "pausing", "canceling") and t in ("succeeded", "failed", "canceled", "timeout", "abandoned") and not act and not staged and not nxt and not paused:
            lemma.check(new in ("succeeded", "failed", "canceled", "paused"), "L5", "%s stays %s on task_%s with nothing active, staged or next" % (w, new, t), **a)
    elif which == 6:  # unhandled failure fails the workflow
        if t in ("failed", "timeout", "abandoned") and not nxt and not bnxt and w in ("running", "pausing", "paused", "resuming"):
            lemma.check(new == "failed", "L6", "unhandled task_%s leaves the %s workflow %s" % (t, w, new), **a)
    elif which == 7:  # pausing holds until dormant
        if w == "pausing":
            lemma.check(new in ("pausing", "paused", "failed", "canceling", "canceled"), "L7", "pausing workflow becomes %s on task_%s" % (new, t), **a)
            if new == "paused":
                lemma.check(not act, "L7", "pausing workflow becomes paused on task_%s while a task is active" % t, **a)
    elif which == 8:  # canceling holds, ends canceled
        if w == "canceling":
            lemma.check(new in ("canceling", "canceled"), "L8", "canceling workflow becomes %s on task_%s" % (new, t), **a)
            if not act and t in S.COMPLETED_STATUSES:
                lemma.check(new == "canceled", "L8", "canceling workflow stays %s on task_%s with nothing active" % (new, t), **a)
    return True


# ------------------------------------------------------------------------------------------
# Retry kernel: real _evaluate_task_retry, unbounded integers.
# ------------------------------------------------------------------------------------------
class _C(object):
    pass


def retry_kernel(tally: int, count: int, st: int, has_when: bool, when_val: bool) -> bool:
    """
    pre: 0 <= st < 4
    post: True
    """
    lemma.path()
    status = ["succeeded", "failed", "timeout", "abandoned"][st]
    entry = {"id": "t", "route": 0, "status": status, "retry": {"count": count, "tally": tally, "when": ("<% W %>" if has_when else None)}}
    import orquesta.conducting as cmod

    orig = cmod.expr_base.evaluate
    cmod.expr_base.evaluate = lambda stmt, ctx=None: when_val if stmt == "<% W %>" else stmt
    try:
        r = WC._evaluate_task_retry(_C(), entry, {})
    finally:
        cmod.expr_base.evaluate = orig
    want = tally < count and ((status != "succeeded" and not has_when) or (has_when and when_val))
    lemma.check(bool(r) == want, "K-retry", "retry decision {got} for tally={tally} count={count} status={status} has_when={has_when} when={when_val}; the policy says {want}",
                tally=tally, count=count, status=status, has_when=has_when, when_val=when_val, got=r, want=want)
    return True


# ------------------------------------------------------------------------------------------
# With-items window kernel: real _evaluate_task_actions, unbounded concurrency, 5 items.
# ------------------------------------------------------------------------------------------
class _Spec(object):
    def has_items(self):
        return True


class _WS(object):
    def __init__(self, staged):
        self._s = staged

    def get_staged_task(self, task_id, route):
        return self._s


class _Cond(object):
    def __init__(self, staged):
        self.workflow_state = _WS(staged)


ITEM_ST = ["null", "running", "succeeded", "failed", "pausing"]
N_ITEMS = 4


def window_kernel(k: int, has_k: bool, i0: int, i1: int, i2: int, i3: int) -> bool:
    """
    pre: all(0 <= i < len(ITEM_ST) for i in (i0, i1, i2, i3))
    post: True
    """
    lemma.path()
    sts = []
    for i in (i0, i1, i2, i3):
        sts.append(pick(ITEM_ST, i))
    # representation invariant: items are handed out in index order, so not-run items form a suffix
    seen_null = False
    for s in sts:
        if s == "null":
            seen_null = True
        elif seen_null:
            return True
    staged = {"id": "t", "route": 0, "items": [{"status": s} for s in sts]}
    task = {"id": "t", "route": 0, "spec": _Spec(), "actions": [{"item_id": n} for n in range(N_ITEMS)],
            "items_count": N_ITEMS, "concurrency": (k if has_k else None)}
    out = WC._evaluate_task_actions(_Cond(staged), task)
    got = [a["item_id"] for a in out["actions"]]
    notrun = [n for n in range(N_ITEMS) if sts[n] == "null"]
    active = len([s for s in sts if s in S.ACTIVE_STATUSES])
    if has_k:
        kk = k if k > 0 else 1
        avail = kk - active
        exp = notrun[:avail] if avail > 0 else []
    else:
        exp = notrun
    lemma.check(got == exp, "K-window", "items {got} handed out for item statuses {statuses} with concurrency {k} (set: {has_k}); the window allows {want}",
                k=k, has_k=has_k, statuses=sts, got=got, want=exp)
    return True


# ------------------------------------------------------------------------------------------
# Barrier kernel: real get_inbound_criteria_status, unbounded N, 3 inbound tasks.
# ------------------------------------------------------------------------------------------
class _G(object):
    def __init__(self, n, barrier):
        self.n = n
        self.b = barrier

    def get_prev_transitions(self, task_id):
        return [("p%d" % i, "j", 0, {}) for i in range(self.n)]

    def get_barrier(self, task_id):
        return self.b


class _WS2(object):
    def __init__(self, busy):
        self.has_active_tasks = busy
        self.has_staged_tasks = False


class _Cond2(object):
    def __init__(self, n, barrier, sat, busy):
        self.graph = _G(n, barrier)
        self.workflow_state = _WS2(busy)
        self._sat = sat

    def get_task_state_entry(self, task_id, route):
        v = self._sat[int(task_id[1:])]
        if v == 0:
            return None  # predecessor has not run
        return {"next": {"j__t0": (v == 2)}}  # ran; transition satisfied or not


def barrier_kernel(n_all: bool, N: int, s0: int, s1: int, s2: int, busy: bool) -> bool:
    """
    pre: all(0 <= s <= 2 for s in (s0, s1, s2))
    pre: n_all or N >= 1
    post: True
    """
    lemma.path()
    sat = []
    for s in (s0, s1, s2):
        v = 0
        if s == 1:
            v = 1
        if s == 2:
            v = 2
        sat.append(v)
    c = _Cond2(3, "*" if n_all else N, sat, busy)
    r = WC.get_inbound_criteria_status(c, "j", 0)
    satisfied = sat.count(2)
    need = 3 if n_all else N
    want_sat = satisfied >= need
    lemma.check((r == constants.INBOUND_CRITERIA_SATISFIED) == want_sat, "K-barrier",
                "barrier (all: {n_all}, N: {N}) with inbound evaluation {sat} (2 = satisfied) evaluates to {got}",
                n_all=n_all, N=N, sat=sat, busy=busy, got=r)
    if not want_sat and r == constants.INBOUND_CRITERIA_NOT_SATISFIED:
        # declared unsatisfiable only when it cannot grow any more
        lemma.check(not (0 in sat and busy), "K-barrier", "barrier declared unsatisfiable while an inbound task has not run and work is in progress",
                    n_all=n_all, N=N, sat=sat, busy=busy, got=r)
    return True


def e1(prop, name, fn, fixed_first=None, timeout=600):
    o = {"id": "%s.e1.%s" % (prop, name), "prop": prop, "kind": "e1", "body": "vt.harness.kernels:" + fn, "params": {}, "fixed": {}, "timeout": timeout}
    return o


# ---- one contract-bearing entry per machine lemma (generated text, kept literal for CrossHair) ----

def L1_succeeded_truthful(ws: int, ts: int, act: bool, pausing: bool, paused: bool, canceling: bool, canceled: bool, staged: bool, nxt: bool, bnxt: bool, unr: bool) -> bool:
    """
    pre: 0 <= ws < len(WF_ST) and 0 <= ts < len(TK_ST)
    pre: inv(pick(TK_ST, ts), act, pausing, paused, canceling, canceled, nxt, bnxt)
    post: True
    """
    return machine_lemma(1, ws, ts, act, pausing, paused, canceling, canceled, staged, nxt, bnxt, unr)

def L2_rest_means_dormant(ws: int, ts: int, act: bool, pausing: bool, paused: bool, canceling: bool, canceled: bool, staged: bool, nxt: bool, bnxt: bool, unr: bool) -> bool:
    """
    pre: 0 <= ws < len(WF_ST) and 0 <= ts < len(TK_ST)
    pre: inv(pick(TK_ST, ts), act, pausing, paused, canceling, canceled, nxt, bnxt)
    post: True
    """
    return machine_lemma(2, ws, ts, act, pausing, paused, canceling, canceled, staged, nxt, bnxt, unr)

def L3_ing_means_active(ws: int, ts: int, act: bool, pausing: bool, paused: bool, canceling: bool, canceled: bool, staged: bool, nxt: bool, bnxt: bool, unr: bool) -> bool:
    """
    pre: 0 <= ws < len(WF_ST) and 0 <= ts < len(TK_ST)
    pre: inv(pick(TK_ST, ts), act, pausing, paused, canceling, canceled, nxt, bnxt)
    post: True
    """
    return machine_lemma(3, ws, ts, act, pausing, paused, canceling, canceled, staged, nxt, bnxt, unr)

def L4_terminal_final(ws: int, ts: int, act: bool, pausing: bool, paused: bool, canceling: bool, canceled: bool, staged: bool, nxt: bool, bnxt: bool, unr: bool) -> bool:
    """
    pre: 0 <= ws < len(WF_ST) and 0 <= ts < len(TK_ST)
    pre: inv(pick(TK_ST, ts), act, pausing, paused, canceling, canceled, nxt, bnxt)
    post: True
    """
    return machine_lemma(4, ws, ts, act, pausing, paused, canceling, canceled, staged, nxt, bnxt, unr)

def L5_no_stuck(ws: int, ts: int, act: bool, pausing: bool, paused: bool, canceling: bool, canceled: bool, staged: bool, nxt: bool, bnxt: bool, unr: bool) -> bool:
    """
    pre: 0 <= ws < len(WF_ST) and 0 <= ts < len(TK_ST)
    pre: inv(pick(TK_ST, ts), act, pausing, paused, canceling, canceled, nxt, bnxt)
    post: True
    """
    return machine_lemma(5, ws, ts, act, pausing, paused, canceling, canceled, staged, nxt, bnxt, unr)

def L6_unhandled_failure_fails(ws: int, ts: int, act: bool, pausing: bool, paused: bool, canceling: bool, canceled: bool, staged: bool, nxt: bool, bnxt: bool, unr: bool) -> bool:
    """
    pre: 0 <= ws < len(WF_ST) and 0 <= ts < len(TK_ST)
    pre: inv(pick(TK_ST, ts), act, pausing, paused, canceling, canceled, nxt, bnxt)
    post: True
    """
    return machine_lemma(6, ws, ts, act, pausing, paused, canceling, canceled, staged, nxt, bnxt, unr)

def L7_pausing_holds(ws: int, ts: int, act: bool, pausing: bool, paused: bool, canceling: bool, canceled: bool, staged: bool, nxt: bool, bnxt: bool, unr: bool) -> bool:
    """
    pre: 0 <= ws < len(WF_ST) and 0 <= ts < len(TK_ST)
    pre: inv(pick(TK_ST, ts), act, pausing, paused, canceling, canceled, nxt, bnxt)
    post: True
    """
    return machine_lemma(7, ws, ts, act, pausing, paused, canceling, canceled, staged, nxt, bnxt, unr)

def L8_canceling_holds(ws: int, ts: int, act: bool, pausing: bool, paused: bool, canceling: bool, canceled: bool, staged: bool, nxt: bool, bnxt: bool, unr: bool) -> bool:
    """
    pre: 0 <= ws < len(WF_ST) and 0 <= ts < len(TK_ST)
    pre: inv(pick(TK_ST, ts), act, pausing, paused, canceling, canceled, nxt, bnxt)
    post: True
    """
    return machine_lemma(8, ws, ts, act, pausing, paused, canceling, canceled, staged, nxt, bnxt, unr)
