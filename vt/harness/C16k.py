"""E1 kernels for C16 (real evaluators and helpers, symbolic values, traced by CrossHair)."""
import vt  # noqa: F401

from orquesta import exceptions as exc
from orquesta.expressions import base as E
from orquesta.expressions.functions import common as fcommon
from orquesta.utils import dictionary as dict_util

from vt import lemma

# warm-up outside the analysis (plugin loading)
E.evaluate("<% ctx().x %>", {"x": 1})
E.evaluate("{{ ctx().x }}", {"x": 1})

YAQL_FORMS = ["<% ctx().x %>", "<% ctx(x) %>", "<% ctx('x') %>", '<% ctx("x") %>']
# the function-call forms {{ ctx('x') }} are covered natively by the data-path catalogue: under the
# tracer jinja2's call path for them is mis-modelled by CrossHair (a counterexample that does not
# reproduce natively), so the all-integers lemma is stated for the attribute form only
JINJA_FORMS = ["{{ ctx().x }}", "{{ ctx().x }}", "{{ ctx().x }}", "{{ ctx().x }}"]


def _same(a, b):
    return type(a) is type(b) and a == b


def yaql_int(x: int, form: int) -> bool:
    """
    pre: 0 <= form < 4
    post: True
    """
    lemma.path()
    f = YAQL_FORMS[0]
    for i in range(4):
        if form == i:
            f = YAQL_FORMS[i]
    data = {"x": x, "other": [x]}
    r = E.evaluate(f, data)
    lemma.check(r == x and isinstance(r, int) and not isinstance(r, bool), "K-yaql-int", "YAQL single reference {form} turns the integer {x} into {got}", x=x, form=f, got=r)
    lemma.check(data["x"] == x and data["other"][0] == x and len(data) == 2, "K-yaql-pure", "evaluating {form} modified the context", x=x, form=f)
    return True


def jinja_int(x: int, form: int) -> bool:
    """
    pre: 0 <= form < 4
    post: True
    """
    lemma.path()
    f = JINJA_FORMS[0]
    for i in range(4):
        if form == i:
            f = JINJA_FORMS[i]
    data = {"x": x, "other": [x]}
    r = E.evaluate(f, data)
    lemma.check(r == x and isinstance(r, int) and not isinstance(r, bool), "K-jinja-int", "Jinja single reference {form} turns the integer {x} into {got}", x=x, form=f, got=r)
    lemma.check(data["x"] == x and data["other"][0] == x and len(data) == 2, "K-jinja-pure", "evaluating {form} modified the context", x=x, form=f)
    return True


def yaql_container(x: int, b: bool, lang: bool) -> bool:
    """
    post: True
    """
    lemma.path()
    v = {"n": [x, {"k": x, "b": b, "z": None}], "t": b}
    data = {"x": v}
    r = E.evaluate("<% ctx().x %>" if lang else "{{ ctx().x }}", data)
    ok = isinstance(r, dict) and r["n"][0] == x and r["n"][1]["k"] == x and r["n"][1]["b"] is b and r["n"][1]["z"] is None and r["t"] is b and isinstance(r["n"], list)
    lemma.check(ok, "K-container", "a nested container with leaves {x}/{b} comes back as {got}", x=x, b=b, got=r)
    lemma.check(data["x"]["n"][0] == x and data["x"]["t"] is b, "K-container-pure", "evaluation modified the context value", x=x, b=b)
    return True


def ctx_hidden(c0: int, c1: int, c2: int, n: int) -> bool:
    """
    pre: 0 <= n <= 3
    pre: all(0 <= c < 4 for c in (c0, c1, c2))
    post: True
    """
    lemma.path()
    alphabet = ["_", "a", "s", "t"]
    chars = []
    for c in (c0, c1, c2):
        ch = "_"
        for i in range(4):
            if c == i:
                ch = alphabet[i]
        chars.append(ch)
    key = "__"
    for i in range(3):
        if i < n:
            key = key + chars[i]
    context = {"__vars": {key: "secret", "visible": 1, "__state": {}, "__current_task": {}}}
    try:
        got = fcommon.ctx_(context, key)
        lemma.fail("K-ctx-hidden", "ctx({key}) returned {got} for a name beginning with a double underscore", key=key, got=got)
    except exc.VariableInaccessibleError:
        pass
    allv = fcommon.ctx_(context)
    lemma.check(all(not k.startswith("__") for k in allv) and "visible" in allv, "K-ctx-all", "ctx() leaks internal names: {got}", got=list(allv), key=key)
    return True


def merge_preserves(x: int, y: int, b: bool, overwrite: bool) -> bool:
    """
    post: True
    """
    lemma.path()
    left = {"a": x, "n": {"k": x, "keep": b}, "l": [x]}
    right = {"b": y, "n": {"k": y}, "l": [y, y]}
    r = dict_util.merge_dicts(left, right, overwrite=overwrite)
    lemma.check(r["b"] == y and r["a"] == x and r["n"]["keep"] is b, "K-merge", "merge_dicts lost or changed an unrelated value", x=x, y=y)
    lemma.check(r["n"]["k"] == (y if overwrite else x), "K-merge", "merge_dicts overwrite={overwrite} gave n.k={got} for {x}/{y}", x=x, y=y, overwrite=overwrite, got=r["n"]["k"])
    lemma.check(right == {"b": y, "n": {"k": y}, "l": [y, y]}, "K-merge-pure", "merge_dicts modified its right argument", x=x, y=y)
    return True
