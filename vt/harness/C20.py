"""C20 - every documented shorthand means exactly its long form.

E3: the live REGEX_INLINE_PARAM_VARIATIONS (read from the imported module on every run) are
translated with re._parser into z3 regular expressions; Python's ordered-alternation /
greedy-lazy match semantics are encoded as prefix side conditions. For every documented value
class and delimiter the queries "an earlier alternative steals a prefix" and "the intended
alternative runs past the value" must be unsat for all strings up to the bound; every sat
answer is replayed through the real parse_inline_params before it is reported. The value
post-processing is checked on solver-produced values of each class.
E2c twins: definitions that differ only in notation are conducted under the same symbolic
history and must agree on graph, inspection, offers, inputs, published values and output."""
import json
import re
import re._parser as sp
import time

import vt  # noqa: F401

import z3

from orquesta import statuses as S
from orquesta.specs import native as native_specs
from orquesta.utils import parameters as P

from vt.env import Env, Policy, Violation
from vt.harness.C11 import RawDef
from vt.harness.common import ob
from vt.rx import anychar, ch, tr

LEVEL = "other"
EXPLANATION = ("E3: z3 string/regex queries over the live inline-parameter patterns (unsat = holds for all strings up to the bound; sat = candidate replayed on the real parser); "
               "E2c: CrossHair choice-point twins of shorthand vs long-form definitions under the same symbolic history")


OWN_THOROUGH = True


def _classes():
    alts = P.REGEX_INLINE_PARAM_VARIATIONS
    ANY = z3.Star(anychar())
    D = z3.Range("0", "9")

    def cat(*xs):
        return z3.Concat(*xs)

    def lit(s):
        return z3.Re(z3.StringVal(s))

    def icase(w):
        return cat(*[z3.Union(ch(c.lower()), ch(c.upper())) for c in w])

    noq = z3.Intersect(anychar(), z3.Complement(ch('"')))
    noa = z3.Intersect(anychar(), z3.Complement(ch("'")))
    INT = cat(z3.Option(ch("-")), z3.Union(ch("0"), cat(z3.Range("1", "9"), z3.Star(D))))
    FLT = cat(INT, ch("."), z3.Plus(D))
    yq = [a for a in alts if a.startswith("<%")][0]
    jj = [a for a in alts if a.startswith("{{")][0]
    return alts, ANY, [
        ("integer", INT, alts.index(P.REGEX_INTEGER), lambda v: int(v)),
        ("float", FLT, alts.index(P.REGEX_FLOATING_NUMBER), lambda v: float(v)),
        ("true", icase("true"), alts.index(P.REGEX_TRUE), lambda v: True),
        ("false", icase("false"), alts.index(P.REGEX_FALSE), lambda v: False),
        ("null", lit("null"), alts.index(P.REGEX_NULL), lambda v: None),
        ("dquoted", cat(ch('"'), z3.Star(noq), ch('"')), alts.index(P.REGEX_VALUE_IN_QUOTES), lambda v: _unq(v)),
        ("squoted", cat(ch("'"), z3.Star(noa), ch("'")), alts.index(P.REGEX_VALUE_IN_APOSTROPHES), lambda v: _unq(v)),
        ("yaql", cat(lit("<%"), ANY, lit("%>")), alts.index(yq), lambda v: v),
        ("jinja", cat(lit("{{"), ANY, lit("}}")), alts.index(jj), lambda v: v),
    ]


def _unq(v):
    """Documented meaning of a quoted value: the text between the quotes; a quoted JSON object
    denotes the object."""
    inner = v[1:-1]
    if inner[:1] == "{" and inner[-1:] == "}":
        try:
            return json.loads(inner)
        except Exception:
            return inner
    return inner


def validate_translation(alts, R):
    """The translator is validated on every run: the repository's own test inputs and fixture
    strings are pushed through both `re` and the z3 encoding."""
    samples = ['x=1', 'a="b c"', "k='v'", "n=null", "t=true", "f=False", "z=-1.5", "e=<% ctx().x %>", "j={{ ctx().y }}", 'd=\'{"a": 1}\'', "l=[1, 2]", "x=abc", "", "x=", "x=01", 'q="a\'b"']
    vals = []
    for s in samples:
        m = re.findall(P.REGEX_INLINE_PARAMS, s)
        vals.extend(v for _, v in m)
        vals.append(s.split("=", 1)[-1])
    checked = 0
    for val in set(vals):
        if any(ord(c) < 32 or ord(c) > 126 for c in val):
            continue
        for a, r in zip(alts, R):
            want = re.fullmatch(a, val) is not None
            sol = z3.Solver()
            sol.add(z3.InRe(z3.StringVal(val), r))
            got = str(sol.check()) == "sat"
            checked += 1
            if want != got:
                raise AssertionError("regex translation disagrees with re on %r for %r: re=%s z3=%s" % (a, val, want, got))
    return checked


def tokenisation(ob_):
    maxlen = ob_["params"].get("maxlen", 8)
    t0 = time.time()
    alts, ANY, classes = _classes()
    R = [tr(sp.parse(a)) for a in alts]
    checked = validate_translation(alts, R)
    tails = ["", " y=1", ", y=1", "; y=1"]
    v = z3.String("v")
    nq = 0
    unknown = []
    samples = []
    only = ob_["params"].get("cls")
    for name, lang, j, meaning in classes:
        if only and name != only:
            continue
        for tail in tails:
            s = z3.Concat(v, z3.StringVal(tail))
            base = [z3.InRe(v, lang), z3.Length(v) <= maxlen, z3.Length(v) >= 1]
            if name == "yaql":
                base.append(z3.Not(z3.Contains(z3.SubString(v, 2, z3.Length(v) - 3), z3.StringVal("%>"))))
            if name == "jinja":
                base.append(z3.Not(z3.Contains(z3.SubString(v, 2, z3.Length(v) - 3), z3.StringVal("}}"))))
            queries = []
            for k in range(j):
                queries.append(("stolen-by-alternative-%d" % k, z3.InRe(s, z3.Concat(R[k], ANY))))
            p = z3.String("p")
            queries.append(("overrun", z3.And(z3.PrefixOf(p, s), z3.Length(p) > z3.Length(v), z3.InRe(p, R[j]),
                                              z3.Not(z3.InRe(z3.SubString(p, z3.Length(v), z3.Length(p) - z3.Length(v)), z3.Star(ch(" ")))))))
            # planted query (vacuity guard): the value itself must be accepted by its intended alternative
            sol = z3.Solver()
            sol.set("timeout", 20000)
            sol.add(*base)
            sol.add(z3.InRe(v, z3.Concat(R[j], z3.Star(ch(" ")))))
            nq += 1
            if str(sol.check()) != "sat":
                return {"verdict": "error", "error": {"error": "planted query for class %s is not sat: encoding is vacuous" % name}, "queries": nq}
            for qname, q in queries:
                sol = z3.Solver()
                sol.set("timeout", 120000)
                sol.add(*base)
                sol.add(q)
                nq += 1
                r = str(sol.check())
                if r == "sat":
                    val = sol.model()[v].as_string()
                    text = "x=" + val + tail
                    got = P.parse_inline_params(text)
                    want = [{"x": meaning(val)}] + ([{"y": 1}] if tail else [])
                    samples.append({"class": name, "tail": tail, "query": qname, "model": text, "parser_agrees": got == want})
                    if got != want:
                        return {"verdict": "counterexample", "queries": nq, "paths": nq,
                                "cex": {"args": {"text": text, "want": want}, "message": "C20 inline parameters %r parse to %r, the long form means %r (%s for class %s)" % (text, got, want, qname, name)}}
                elif r != "unsat":
                    unknown.append("%s/%r/%s: %s" % (name, tail, qname, r))
    if unknown:
        return {"verdict": "inconclusive", "message": "; ".join(unknown[:5]), "queries": nq, "paths": nq}
    return {"verdict": "confirmed", "queries": nq, "paths": nq, "distinct": nq, "translation_checks": checked,
            "samples": samples[:3] or [{"queries": nq, "all": "unsat", "maxlen": maxlen}], "wall_s": time.time() - t0}


def values(ob_):
    """Post-processing on solver-produced values of each class (with diversity constraints)."""
    alts, ANY, classes = _classes()
    v = z3.String("v")
    per = ob_["params"].get("per_class", 40)
    n = 0
    specials = ["'", '"', "\\", "{", "}", " ", ":", ",", "=", "%", "0", "-", "e", "E", "."]
    for name, lang, j, meaning in classes:
        for special in [None] + specials:
            sol = z3.Solver()
            sol.set("timeout", 20000)
            sol.add(z3.InRe(v, lang), z3.Length(v) <= 7)
            if special is not None:
                sol.add(z3.Contains(v, z3.StringVal(special)))
            if name == "yaql":
                sol.add(z3.Not(z3.Contains(z3.SubString(v, 2, z3.Length(v) - 3), z3.StringVal("%>"))))
            if name == "jinja":
                sol.add(z3.Not(z3.Contains(z3.SubString(v, 2, z3.Length(v) - 3), z3.StringVal("}}"))))
            k = 0
            lim = per if special is None else 4
            while k < lim and str(sol.check()) == "sat":
                val = sol.model()[v].as_string()
                sol.add(v != z3.StringVal(val))
                k += 1
                n += 1
                got = P.parse_inline_params("x=" + val)
                try:
                    want = [{"x": meaning(val)}]
                except Exception:
                    continue
                if got != want:
                    return {"verdict": "counterexample", "queries": n, "paths": n,
                            "cex": {"args": {"text": "x=" + val, "want": want}, "message": "C20 inline value %r parses to %r, the long form means %r (class %s)" % (val, got, want, name)}}
    return {"verdict": "confirmed", "queries": n, "paths": n, "distinct": n, "samples": [{"values_checked": n}]}


def confirm(ob_, cex):
    a = (cex or {}).get("args") or {}
    text, want = a.get("text"), a.get("want")
    got = P.parse_inline_params(text)
    if got != want:
        return {"violation": {"prop": "C20", "monitor": "inline-parse", "message": cex.get("message")}, "text": text, "got": got, "want": want}
    return {"violation": None}


# ---- E2c twins ---------------------------------------------------------------------------
VALUES = [
    ("1", 1), ("-7", -7), ("0.5", 0.5), ("true", True), ("False", False), ("null", None),
    ('"a b"', "a b"), ("'c d'", "c d"), ('\'{"k": 1}\'', {"k": 1}), ("<% ctx().x %>", "<% ctx().x %>"), ("{{ ctx().x }}", "{{ ctx().x }}"), ('"Q\'"', "Q'"), ('" pad "', " pad "), ("'> '", "> "), ('" "', " "),
]


def pair(kind, i):
    """(shorthand definition, long-form definition) differing only in notation."""
    short, longv = VALUES[i]
    base = {"version": 1.0, "vars": [{"x": 5}], "output": [{"o": "<% ctx().get(p) %>"}, {"q": "<% ctx().get(q) %>"}]}
    if kind == "action":
        a = {"t1": {"action": "core.echo message=" + short + " n=2", "next": [{"do": "t2"}]}, "t2": {"action": "core.noop"}}
        b = {"t1": {"action": "core.echo", "input": {"message": longv, "n": 2}, "next": [{"do": "t2"}]}, "t2": {"action": "core.noop"}}
    elif kind == "publish":
        a = {"t1": {"action": "core.noop", "next": [{"publish": "p=" + short + " q=3", "do": "t2"}]}, "t2": {"action": "core.echo", "input": {"m": "<% ctx().p %>"}}}
        b = {"t1": {"action": "core.noop", "next": [{"publish": [{"p": longv}, {"q": 3}], "do": "t2"}]}, "t2": {"action": "core.echo", "input": {"m": "<% ctx().p %>"}}}
    elif kind == "publish-dup":
        # the same variable assigned twice in one inline publish, with a reader in between
        a = {"t1": {"action": "core.noop", "next": [{"publish": "p=\"first\" q=<% ctx().p %> p=" + short, "do": "t2"}]}, "t2": {"action": "core.echo", "input": {"m": "<% ctx().q %>", "n": "<% ctx().p %>"}}}
        b = {"t1": {"action": "core.noop", "next": [{"publish": [{"p": "first"}, {"q": "<% ctx().p %>"}, {"p": longv}], "do": "t2"}]}, "t2": {"action": "core.echo", "input": {"m": "<% ctx().q %>", "n": "<% ctx().p %>"}}}
    elif kind == "do":
        spell = ["t2, t3", "t2,t3", "t2 ,t3", "t2,  t3"][i % 4]
        a = {"t1": {"action": "core.noop", "next": [{"publish": [{"p": "v"}], "do": spell}]}, "t2": {"action": "core.echo", "input": {"m": "<% ctx().p %>"}}, "t3": {"action": "core.noop"}}
        b = {"t1": {"action": "core.noop", "next": [{"publish": [{"p": "v"}], "do": ["t2", "t3"]}]}, "t2": {"action": "core.echo", "input": {"m": "<% ctx().p %>"}}, "t3": {"action": "core.noop"}}
    elif kind == "with":
        forms = [("<% ctx().xs %>", {"items": "<% ctx().xs %>"}), ("i in <% ctx().xs %>", {"items": "i in <% ctx().xs %>"})]
        sa, lb = forms[i % 2]
        act = "core.echo message=<% item() %>" if i % 2 == 0 else "core.echo message=<% item(i) %>"
        base["vars"] = [{"x": 5}, {"xs": [1, 2]}]
        a = {"t1": {"with": sa, "action": act, "next": [{"publish": [{"p": "<% result() %>"}], "do": "t2"}]}, "t2": {"action": "core.noop"}}
        b = {"t1": {"with": lb, "action": act, "next": [{"publish": [{"p": "<% result() %>"}], "do": "t2"}]}, "t2": {"action": "core.noop"}}
    elif kind == "continue":
        a = {"t1": {"action": "core.noop", "next": [{"when": "<% failed() %>", "publish": [{"p": "f"}]}, {"when": "<% succeeded() %>", "publish": [{"p": "s"}]}]}}
        b = {"t1": {"action": "core.noop", "next": [{"when": "<% failed() %>", "publish": [{"p": "f"}], "do": "continue"}, {"when": "<% succeeded() %>", "publish": [{"p": "s"}], "do": "continue"}]}}
    else:
        raise ValueError(kind)
    da, db = dict(base), dict(base)
    da["tasks"], db["tasks"] = a, b
    return da, db


def notation_twin(ch, ctx, kind, n, twin=False):
    i = ch.pick("variant", n)
    da, db = pair(kind, i)
    sa, sb = native_specs.WorkflowSpec(json.loads(json.dumps(da))), native_specs.WorkflowSpec(json.loads(json.dumps(db)))
    ia, ib = sa.inspect(), sb.inspect()
    strip = lambda rep: json.dumps({k: sorted([(e.get("message"), e.get("spec_path").split(".publish")[0] if e.get("spec_path") else None) for e in v]) for k, v in rep.items()}, sort_keys=True, default=str)
    ctx["counters"]["c20_pairs"] = ctx["counters"].get("c20_pairs", 0) + 1
    what = "%s variant %d (%r)" % (kind, i, da["tasks"]["t1"])
    def fail(mon, msg, **facts):
        v = Violation("C20", mon, "C20 " + msg + " | " + what, dict(facts, kind=kind))
        v.definition = "%s#%d" % (kind, i)
        v.log = [what]
        raise v
    if bool(ia) != bool(ib) or (ia and strip(ia) != strip(ib)):
        fail("inspection-differs", "inspection of the shorthand reports %s, of the long form %s" % (ia, ib))
    if ia:
        return {"kind": kind, "variant": i, "inspection": "both rejected"}
    from orquesta.composers import native as comp
    ga, gb = comp.WorkflowComposer.compose(sa).serialize(), comp.WorkflowComposer.compose(sb).serialize()
    if ga != gb:
        fail("graph-differs", "composed graphs differ: %s vs %s" % (ga, gb))
    ea = Env(ch, RawDef("short", sa, {}), "C20", monitors=[], policy=Policy(steps=4))
    eb = Env(ch, RawDef("long", sb, {}), "C20", monitors=[], policy=Policy(steps=4))
    try:
        ea.run()
        eb.run()
    except Violation as v:
        v.definition = "%s#%d" % (kind, i)
        raise
    oa = [json.loads(x) for x in ea.offer_log]
    ob2 = [json.loads(x) for x in eb.offer_log]
    vis = lambda offers: [[[t[0], t[1], t[2], t[3], t[4], t[5], {k: v for k, v in (t[6] or {}).items() if not k.startswith("__")}] for t in o] for o in offers]
    if vis(oa) != vis(ob2):
        fail("offers-differ", "offered tasks / actions / inputs differ: shorthand %s, long form %s" % (vis(oa), vis(ob2)))
    if ea.status() != eb.status():
        fail("status-differs", "final status %s vs %s (errors %s vs %s)" % (ea.status(), eb.status(), ea.c.errors, eb.c.errors))
    if ea.c.workflow_state.contexts != eb.c.workflow_state.contexts:
        fail("published-differs", "published values differ: %s vs %s" % (ea.c.workflow_state.contexts, eb.c.workflow_state.contexts))
    if ea.c.get_workflow_output() != eb.c.get_workflow_output():
        fail("output-differs", "output %s vs %s" % (ea.c.get_workflow_output(), eb.c.get_workflow_output()))
    if twin:
        fail("reachability-twin", "notations compared")
    return {"kind": kind, "variant": i, "status": ea.status()}


def obligations(tier):
    obs = []
    o = {"id": "C20.e3.tokenisation", "prop": "C20", "kind": "e3", "body": "vt.harness.C20:tokenisation", "params": {"maxlen": 8 if tier == "quick" else 12}, "fixed": {}, "timeout": 1800}
    if tier == "quick":
        obs.append(o)
    else:
        for cls in ("integer", "float", "true", "false", "null", "dquoted", "squoted", "yaql", "jinja"):
            d = dict(o)
            d["id"] = "C20.e3.tokenisation." + cls
            d["params"] = {"maxlen": 9 if cls in ("yaql", "jinja") else 12, "cls": cls}
            obs.append(d)
    obs.append({"id": "C20.e3.values", "prop": "C20", "kind": "e3", "body": "vt.harness.C20:values", "params": {"per_class": 30 if tier == "quick" else 120}, "fixed": {}, "timeout": 1800})
    for kind, n in [("action", len(VALUES)), ("publish", len(VALUES)), ("publish-dup", 6), ("do", 4), ("with", 2), ("continue", 1)]:
        x = ob("C20", "e2c.twin." + kind, "vt.harness.C20:notation_twin", {"kind": kind, "n": n}, timeout=600)
        x["antecedents"] = ["c20_pairs"]
        obs.append(x)
    obs.append(ob("C20", "twin.reach", "vt.harness.C20:notation_twin", {"kind": "do", "n": 4, "twin": True}, timeout=60))
    return obs
