"""C18 - execution history is append-only; finished records never change."""
from vt.harness.common import history_body, ob, position_slices, rerun_sets
from vt.monitors import C18AppendOnly


OWN_THOROUGH = True


def append_only(ch, ctx, did, **kw):
    return history_body("C18", lambda: [C18AppendOnly()], ch, ctx, did, **kw)


def obligations(tier):
    obs = []
    plain = [("D02", 5), ("D05b", 5), ("D06p", 6), ("D09", 8), ("D09b", 8), ("D10", 5), ("D11", 5), ("D12p", 6), ("D13i", 4), ("D15", 4), ("D22", 6), ("D22b", 6), ("D23", 6)]
    for did, steps in plain:
        if tier == "quick":
            o = ob("C18", "e2c." + did, "vt.harness.C18:append_only", {"did": did, "steps": steps, "tokens": True, "bits": True}, timeout=900)
            o["antecedents"] = ["c18_compared", "c18_decided"]
            obs.append(o)
        else:
            # one more completion event and one restart of the conductor at any single boundary
            o = ob("C18", "e2c." + did, "vt.harness.C18:append_only", {"did": did, "steps": steps + 1, "tokens": True, "bits": True, "crash": "one"}, timeout=3600)
            o["antecedents"] = ["c18_compared", "c18_decided"]
            obs.extend(position_slices(o, "crash_at", steps + 3))
    reruns = [("D18", 5, ["s/0", "a/0", "b/0", "c/0", "j/0"]), ("D05b", 5, ["s/0", "a/0", "b/0", "j/0", "z/0"]), ("D10", 4, ["s/0", "a/0", "b/0", "c/0"]), ("D11", 4, ["w/0", "z/0"])]
    if tier == "quick":
        reruns = [r for r in reruns if r[0] in ("D18", "D11")]
    # relaxed start order (an offered task is started only after a further event) around an explicit rerun
    # relaxed start order (an offered task is started only after a further event) right after an explicit rerun
    o = ob("C18", "e2c.lazy.D19", "vt.harness.C18:append_only", {"did": "D19", "steps": 4, "tokens": True, "rerun": "explicit", "rerun_steps": 2, "rerun_ok": True, "rerun_order": False, "lazy_start": 1, "lazy_after_rerun": True}, timeout=1200)
    o["antecedents"] = ["c18_compared"]
    o["fixed"] = {"rr:init/0": False, "rr:fast/0": False, "rr:done/0": False}
    obs.extend(rerun_sets(o, ["slow/0", "work/0"], 2))
    for did, steps, labels in reruns:
        o = ob("C18", "e2c.rerun." + did, "vt.harness.C18:append_only", {"did": did, "steps": steps, "tokens": True, "rerun": "explicit", "rerun_steps": 3 if tier == "quick" else 4, "rerun_ok": True, "rerun_order": tier == "quick"}, timeout=1200)
        o["antecedents"] = ["c18_compared", "c18_decided"]
        obs.extend(rerun_sets(o, labels, 2 if tier == "quick" else 3))
    obs.append(ob("C18", "twin.D06p", "vt.harness.C18:append_only", {"did": "D06p", "steps": 6, "twin": True}, timeout=120))
    return obs
