"""C13 - retry: bounded attempts, no transition from a retried attempt."""
from vt import defs
from vt.choice import ReplayChooser
from vt.env import Env, Policy, Violation
from vt.harness import kernels
from vt.harness.common import ob
from vt.monitors import C13Retry, OracleTracker, C01Justified

FUNCTIONS = ["orquesta.conducting.WorkflowConductor._evaluate_task_retry (E1, unbounded ints)", "update_task_state / get_next_tasks / setup_retry_in_task_state (E2c, real conductor)"]


def retry(ch, ctx, did, steps, n=None, d=None, twin=False, **pol):
    wf = defs.get(did)
    inputs = dict(wf.inputs)
    if n is not None:
        inputs["n"] = n
    if d is not None:
        inputs["d"] = d
    env = Env(ch, wf, "C13", monitors=[C13Retry()], policy=Policy(steps=steps, **pol), inputs=inputs)
    env.counters = ctx["counters"]
    try:
        env.run()
    except Violation as v:
        v.definition = did
        v.log = list(env.log)
        v.calls = list(env.calls)
        raise
    if twin:
        v = Violation("C13", "reachability-twin", "end reached: " + " ".join(env.log), {})
        v.definition = did
        raise v
    return env.summary()


def confirm(ob_, cex):
    """A failing retry-kernel lemma is confirmed by a native run with that retry count in which
    every attempt fails: the history monitor must see more than count+1 executions."""
    args = (cex or {}).get("args") or {}
    cnt = args.get("count")
    if not isinstance(cnt, int) or not (0 <= cnt <= 6):
        cnt = 2 if not isinstance(cnt, int) else max(0, min(6, cnt))
    for n in sorted({cnt, 0, 1, 2}):
        ch = ReplayChooser({})  # every outcome flag defaults to False = failed
        try:
            retry(ch, {"counters": {}}, "D10e", steps=n + 4, n=n, statuses=("succeeded", "failed"))
        except Violation as v:
            return {"violation": {"prop": v.prop, "monitor": v.monitor, "message": v.msg}, "signature": v.signature(), "history": getattr(v, "log", None), "lemma": cex}
    return {"violation": None, "note": "no native history with retry counts %s reproduces the lemma failure" % sorted({cnt, 0, 1, 2})}


def obligations(tier):
    obs = [kernels.e1("C13", "retry_kernel", "retry_kernel", timeout=300)]
    hist = [("D10", 6, {"control": "either"}), ("D10c", 6, {}), ("D10s", 8, {}), ("D10l", 9, {}), ("D10w", 6, {}), ("D28", 7, {}), ("D28", 6, {"lazy_start": 1})]
    for did, steps, extra in hist:
        p = {"did": did, "steps": steps}
        p.update(extra)
        o = ob("C13", "e2c." + did + (".lazy" if extra.get("lazy_start") else ""), "vt.harness.C13:retry", p, timeout=900)
        o["antecedents"] = ["c13_retried", "c13_reoffers"]
        obs.append(o)
    o = ob("C13", "e2c.requested.D10", "vt.harness.C13:retry", {"did": "D10", "steps": 6, "requested_first": True}, timeout=900)
    o["antecedents"] = ["c13_retried", "c13_reoffers"]
    obs.append(o)
    for n in (0, 1, 2, 3):
        o = ob("C13", "e2c.D10e.n%d" % n, "vt.harness.C13:retry", {"did": "D10e", "steps": n + 3, "n": n, "d": 4}, timeout=600)
        obs.append(o)
    obs.append(ob("C13", "twin.D10", "vt.harness.C13:retry", {"did": "D10", "steps": 5, "twin": True}, timeout=60))
    return obs
