"""Action-level paused / pending (provider contract A5), a dedicated harness so that a modelling
mistake here cannot contaminate the main lifecycle results.

A5: an action that reports `paused` while the workflow is pausing, or `pending` at any time, is
*held*, not in flight. When the workflow is `paused` with nothing in flight the provider requests
resume and reports `running` for every action it holds paused; a pending action stays held until
its answer arrives, which the provider delivers after everything else has come to rest."""
import vt  # noqa: F401

from orquesta import events
from orquesta import statuses as S

from vt import defs
from vt.env import Env, Policy, Violation
from vt.harness.common import ob
from vt.monitors import C02Truth, C03Quiescence, C04Terminal, C09Pause, C10Cancel, count


class HeldEnv(Env):
    late_answers = False

    def hold(self, idx, kind):
        act = self.inflight.pop(idx)
        self.log.append("~%s:%s" % (act.label(), kind))
        self._update(act.task, act.route, events.ActionExecutionEvent(kind), ["action", kind])
        self.held.append((act, kind))
        count(self, "a5_held")

    def run(self):
        p = self.policy
        self.start()
        held_once = set()
        while True:
            self.boundary()
            if not self.inflight:
                st = self.status()
                if st == S.PAUSED:
                    if not (self.pause_req or self.held):
                        for m in self.monitors:
                            m.on_quiescent(self)
                        break
                    self.request(S.RESUMING)
                    for act, kind in list(self.held):
                        if kind == S.PAUSED:
                            self.held.remove((act, kind))
                            self.log.append("~%s:running" % act.label())
                            self._update(act.task, act.route, events.ActionExecutionEvent(S.RUNNING), ["action", S.RUNNING])
                            self.inflight.append(act)
                    self.offers()
                    if not self.inflight and self.held and self.step < p.steps:
                        act, kind = self.held.pop(0)
                        self.inflight.append(act)
                        status, result = self.choose_outcome(act)
                        self.log.append("(answer)")
                        self.report(len(self.inflight) - 1, status, result)
                        self.step += 1
                        self.offers()
                    if self.inflight or (self.held and self.step < p.steps):
                        continue
                if self.late_answers and self.held and st in (S.CANCELED, S.FAILED, S.SUCCEEDED) and self.step < p.steps:
                    # the answer of a pending action arrives after the workflow has reached a terminal status
                    act, kind = self.held.pop(0)
                    self.inflight.append(act)
                    status, result = self.choose_outcome(act)
                    self.log.append("(late answer)")
                    count(self, "a5_late_answer")
                    self.report(len(self.inflight) - 1, status, result)
                    self.step += 1
                    self.offers()
                    continue
                if not self.held:
                    for m in self.monitors:
                        m.on_quiescent(self)
                break
            if self.step >= p.steps:
                break
            idx = self.ch.pick("r%d" % self.step, min(len(self.inflight), p.max_inflight))
            act = self.inflight[idx]
            if act.item is None and act.task in ("a", "b") and act.task not in held_once and self.ch.flag("hold%d" % self.step):
                held_once.add(act.task)
                self.hold(idx, S.PAUSED if self.status() == S.PAUSING else S.PENDING)
            else:
                status, result = self.choose_outcome(act)
                self.report(idx, status, result)
            self.step += 1
            self.offers()
        complete = not self.inflight and not self.held
        if complete:
            self.render_output()
        for m in self.monitors:
            m.on_end(self, complete)
        return self.status()


MONITORS = {"C04": lambda: [C04Terminal()], "C02": lambda: [C02Truth()], "C03": lambda: [C03Quiescence()], "C09": lambda: [C09Pause()], "C10": lambda: [C10Cancel()]}


def held_actions(ch, ctx, prop, steps=7, control="pause", twin=False, did="D21", late_answers=False):
    wf = defs.get(did)
    env = HeldEnv(ch, wf, prop, monitors=MONITORS[prop](), policy=Policy(steps=steps, control=control))
    env.late_answers = late_answers
    env.counters = ctx["counters"]
    try:
        env.run()
    except Violation as v:
        v.definition = did
        v.log = list(env.log)
        v.calls = list(env.calls)
        raise
    if twin:
        v = Violation(prop, "reachability-twin", "end reached: " + " ".join(env.log), {})
        v.definition = "D21"
        raise v
    return env.summary()


def obligation(prop, tier):
    o = ob(prop, "e2c.a5.D21", "vt.harness.A5:held_actions", {"prop": prop, "steps": 6 if tier == "quick" else 8}, timeout=1200)
    o["antecedents"] = ["a5_held"]
    return o
