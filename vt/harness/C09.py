"""C09 - pause and resume are transparent."""
from orquesta import statuses as S

from vt import defs
from vt.choice import ReplayChooser
from vt.env import Env, Policy, Violation, outcome, run_script
from vt.harness import A5, kernels
from vt.harness.common import control_slices, ob
from vt.monitors import C09Pause, count


OWN_THOROUGH = True


def pause_twin(ch, ctx, did, steps, twin=False, **pol):
    """Run B: pause at a symbolic boundary, resume once at rest. Run A': the same completion
    order and outcomes with no pause. Status, executed tasks, errors and output must agree."""
    wf = defs.get(did)
    b = Env(ch, wf, "C09", monitors=[C09Pause()], policy=Policy(steps=steps, control="pause", tokens=True, bits=True, resume_verbs=True, **pol))
    b.counters = ctx["counters"]
    try:
        b.run()
        if b.inflight or not b.ever_pause_req:
            return b.summary()
        a = Env(ReplayChooser({}), wf, "C09", monitors=[], policy=Policy(tokens=True, bits=True))
        run_script(a, b.script)
        oa, ob_ = outcome(a), outcome(b)
        count(b, "c09_twin_compared")
        fields = ("status", "executed", "errors", "output") if not a.extra_work else ("status",)
        for field in fields:
            if oa[field] != ob_[field]:
                last = b.started[-1] if b.started else None
                for x in b.started:
                    if b.script and x.label() == b.script[-1][0] and x.visit == b.script[-1][1]:
                        last = x
                rec = (b.c.get_task_state_entry(last.task, last.route) or {}) if last else {}
                raise Violation(
                    "C09", "twin-differs",
                    "C09 %s with the pause: %r; the same history without the pause: %r | paused history: %s | unpaused history: %s"
                    % (field, ob_[field], oa[field], " ".join(b.log), " ".join(a.log)),
                    {"field": field, "last_flagged_terminal": bool(rec.get("term"))},
                )
    except Violation as v:
        v.definition = did
        v.log = list(b.log)
        v.calls = list(b.calls)
        raise
    if twin:
        v = Violation("C09", "reachability-twin", "paused and unpaused runs compared: " + " ".join(b.log), {})
        v.definition = did
        raise v
    return b.summary()


def obligations(tier):
    obs = [kernels.e1("C09", "L7_pausing_holds", "L7_pausing_holds", timeout=600)]
    quick = [("D02", 5), ("D03", 4), ("D04", 5), ("D07", 5), ("D08", 4), ("D09", 8), ("D10", 5), ("D11", 5), ("D12p", 7), ("D13", 4),
             # a multi-referenced task live on two routes at once
             ("D06", 5)]
    for did, steps in quick:
        if tier == "thorough":
            steps += 1
        o = ob("C09", "e2c." + did, "vt.harness.C09:pause_twin", {"did": did, "steps": steps}, timeout=900 if tier == "quick" else 3600)
        o["antecedents"] = ["c09_twin_compared", "c09_offer_checked"]
        if tier == "thorough":
            # one worker per pause boundary (the histories without a pause have nothing to compare)
            for b in range(steps + 2):
                d = dict(o)
                d["id"] = "%s#p%d" % (o["id"], b)
                d["fixed"] = {"ctl_at": b}
                obs.append(d)
        else:
            obs.append(o)
    obs.append(ob("C09", "twin.D04", "vt.harness.C09:pause_twin", {"did": "D04", "steps": 5, "twin": True}, timeout=120))
    obs.append(A5.obligation("C09", tier))
    return obs
