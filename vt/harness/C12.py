"""C12 - with-items: every item once, in order, within the concurrency limit."""
import itertools

from vt import defs
from vt.choice import ReplayChooser
from vt.env import Env, Policy, Violation
from vt.harness import kernels
from vt.harness.common import control_slices, ob
from vt.monitors import C12Items

FUNCTIONS = ["orquesta.conducting.WorkflowConductor._evaluate_task_actions (E1, concurrency unbounded)", "machines.TaskStateMachine item events, update_task_state, get_next_tasks (E2c)"]


def items(ch, ctx, n=None, conc=None, conc_expr=False, sibling=False, steps=6, twin=False, dups=False, did=None, **pol):
    wf = defs.get(did) if did else defs.items_def(n, conc, conc_expr, sibling, dups)
    env = Env(ch, wf, "C12", monitors=[C12Items()], policy=Policy(steps=steps, **pol))
    env.counters = ctx["counters"]
    try:
        env.run()
    except Violation as v:
        v.definition = wf.id
        v.log = list(env.log)
        v.calls = list(env.calls)
        raise
    if twin:
        v = Violation("C12", "reachability-twin", "end reached: " + " ".join(env.log), {})
        v.definition = wf.id
        raise v
    return env.summary()


def confirm(ob_, cex):
    """Reproduce a failing window-kernel lemma through the public API: 4 (and 5) items with the
    lemma's concurrency, every report order, all items succeeding, under the history monitor."""
    args = (cex or {}).get("args") or {}
    k = args.get("k") if args.get("has_k") else None
    ks = [k] + [x for x in (1, 2, 3) if x != k]
    for kk in ks:
        if kk is not None and not (-1 <= kk <= 5):
            continue
        for n in (4, 5):
            for picks in itertools.product(range(3), repeat=n):
                d = {}
                for i, p in enumerate(picks):
                    d["r%d" % i] = p
                    d["o%d" % i] = True
                for i in range(n, n + 3):
                    d["o%d" % i] = True
                try:
                    items(ReplayChooser(d), {"counters": {}}, n=n, conc=kk, steps=n + 2)
                except Violation as v:
                    return {"violation": {"prop": v.prop, "monitor": v.monitor, "message": v.msg}, "signature": v.signature(), "history": getattr(v, "log", None), "lemma": cex}
    return {"violation": None, "note": "no native history with 4 or 5 items reproduces the lemma failure"}


def obligations(tier):
    obs = [kernels.e1("C12", "window_kernel", "window_kernel", timeout=900)]
    cases = [(3, None, False), (3, 1, False), (3, 2, False), (3, 0, False), (3, -1, True), (3, 0, True), (3, 2, True), (0, None, False), (0, 2, False), (1, 1, False), (4, 2, False), (4, 3, False), (2, 5, False)]
    for n, k, ex in cases:
        o = ob("C12", "e2c.n%d.k%s%s" % (n, k, "x" if ex else ""), "vt.harness.C12:items", {"n": n, "conc": k, "conc_expr": ex, "steps": n + 2}, timeout=900)
        if n:
            o["antecedents"] = ["c12_item_offers", "c12_task_completed"]
        obs.append(o)
    for k in (None, 2):
        o = ob("C12", "e2c.dups.n4.k%s" % k, "vt.harness.C12:items", {"n": 4, "conc": k, "steps": 6, "dups": True}, timeout=900)
        o["antecedents"] = ["c12_item_offers", "c12_task_completed"]
        obs.append(o)
    for k in (None, 1, 2):
        o = ob("C12", "e2c.ctl.n3.k%s" % k, "vt.harness.C12:items", {"n": 3, "conc": k, "steps": 5, "control": "either"}, timeout=900)
        o["antecedents"] = ["c12_item_offers"]
        obs.append(o)
    for k in (None, 2):
        o = ob("C12", "e2c.cascade.n3.k%s" % k, "vt.harness.C12:items", {"n": 3, "conc": k, "steps": 6, "control": "either", "intermediate": True, "statuses": ["succeeded", "canceled"]}, timeout=1200)
        o["antecedents"] = ["c12_item_offers"]
        obs.extend(control_slices(o, 4))
    o = ob("C12", "e2c.sib.n3.k2", "vt.harness.C12:items", {"n": 3, "conc": 2, "sibling": True, "steps": 6, "control": "either"}, timeout=1200)
    obs.extend(control_slices(o, 7))
    # the with-items task is started once per loop iteration, each time on a new route, while the previous one still runs
    o = ob("C12", "e2c.loop.D29w", "vt.harness.C12:items", {"did": "D29w", "steps": 7, "statuses": ["succeeded"]}, timeout=1200)
    o["antecedents"] = ["c12_item_offers", "c12_task_completed"]
    obs.append(o)
    obs.append(ob("C12", "twin.n3", "vt.harness.C12:items", {"n": 3, "conc": 2, "steps": 5, "twin": True}, timeout=60))
    return obs
