"""Shared pieces of the E2c history harnesses."""
import vt  # noqa: F401

from orquesta import statuses as S

from vt import defs
from vt.env import Env, Policy, Violation


def history_body(prop, monitors_factory, ch, ctx, did, twin=False, **pol):
    """Generic bounded-history harness: build the definition, let the environment drive a
    real conductor under the given policy, with the property's monitors attached."""
    wf = defs.get(did)
    policy = Policy(**pol)
    env = Env(ch, wf, prop, monitors=monitors_factory(), policy=policy)
    env.counters = ctx["counters"]
    try:
        env.run()
    except Violation as v:
        v.definition = did
        v.log = list(env.log)
        v.calls = list(env.calls)
        raise
    if twin:
        v = Violation(prop, "reachability-twin", "end of a history reached: " + " ".join(env.log), {})
        v.definition = did
        raise v
    return env.summary()


def ob(prop, name, body, params, timeout=300, fixed=None, kind="e2c"):
    return {
        "id": "%s.%s" % (prop, name),
        "prop": prop,
        "kind": kind,
        "body": body,
        "params": params,
        "fixed": fixed or {},
        "timeout": timeout,
    }
