"""Shared pieces of the E2c history harnesses."""
import vt  # noqa: F401

from orquesta import statuses as S

from vt import defs
from vt.env import Env, Policy, Violation


def history_body(prop, monitors_factory, ch, ctx, did, twin=False, **pol):
    """Generic bounded-history harness: build the definition, let the environment drive a
    real conductor under the given policy, with the property's monitors attached."""
    wf = defs.get(did)
    policy = Policy(**pol)
    env = Env(ch, wf, prop, monitors=monitors_factory(), policy=policy)
    env.counters = ctx["counters"]
    try:
        env.run()
    except Violation as v:
        v.definition = did
        v.log = list(env.log)
        v.calls = list(env.calls)
        raise
    if twin:
        v = Violation(prop, "reachability-twin", "end of a history reached: " + " ".join(env.log), {})
        v.definition = did
        raise v
    return env.summary()


def sliced(o, n, depth=8):
    """Split one obligation into n workers; the union of the slices is the whole space."""
    out = []
    for i in range(n):
        d = dict(o)
        d["id"] = "%s#%d" % (o["id"], i)
        d["slice"] = [i, n, depth]
        out.append(d)
    return out


def control_slices(o, boundaries):
    """Partition an obligation whose policy has control="either"/"pause"/"cancel" by the kind
    and position of the control request: one worker per (kind, boundary) plus one for the
    histories without a request. The union is exactly the unsliced space."""
    ctl = o["params"]["control"]
    kinds = {"either": (True, False), "pause": (True,), "cancel": (False,)}[ctl]
    out = []
    d = dict(o)
    d["id"] = o["id"] + "#none"
    d["fixed"] = dict(o.get("fixed") or {}, ctl_at=-1)
    out.append(d)
    for b in range(boundaries):
        for is_pause in kinds:
            d = dict(o)
            d["id"] = "%s#%s%d" % (o["id"], "p" if is_pause else "c", b)
            d["fixed"] = dict(o.get("fixed") or {}, ctl_at=b, ctl_is_pause=is_pause)
            out.append(d)
    return out


def position_slices(o, key, positions, tag="@"):
    """One worker per value of a lazily compared position variable (the union over all values
    in range(positions) plus 'never' would be the unsliced space; 'never' is omitted when the
    harness has nothing to check without the event)."""
    out = []
    for b in range(positions):
        d = dict(o)
        d["id"] = "%s%s%d" % (o["id"], tag, b)
        d["fixed"] = dict(o.get("fixed") or {})
        d["fixed"][key] = b
        out.append(d)
    return out


def rerun_sets(o, labels, max_size):
    """One worker per explicit rerun request set (subsets of the given task/route labels up to
    max_size); the request bits are fixed per worker, everything else stays symbolic."""
    import itertools

    out = []
    for k in range(0, max_size + 1):
        for sub in itertools.combinations(labels, k):
            d = dict(o)
            d["id"] = "%s@%s" % (o["id"], "+".join(x.split("/")[0] for x in sub) or "default")
            d["fixed"] = dict(o.get("fixed") or {})
            for lab in labels:
                d["fixed"]["rr:" + lab] = lab in sub
            out.append(d)
    return out


def ob(prop, name, body, params, timeout=300, fixed=None, kind="e2c"):
    return {
        "id": "%s.%s" % (prop, name),
        "prop": prop,
        "kind": kind,
        "body": body,
        "params": params,
        "fixed": fixed or {},
        "timeout": timeout,
    }


def deepen(obs, dsteps=1):
    """Thorough tier: every bounded-history obligation gets `dsteps` more completion events, a
    longer budget, and - where the harness does not already use crash points - one
    persist/restore of the conductor at a symbolic boundary, so that the property's monitors must
    also hold across a restart at any single point. Obligations with a control request are
    partitioned by the kind and boundary of the request, the others by the restart boundary."""
    out = []
    for o in obs:
        p = o.get("params") or {}
        plain = o.get("kind") == "e2c" and "steps" in p and not p.get("twin") and not o.get("slice")
        if not plain or any(k in (o.get("fixed") or {}) for k in ("ctl_at", "crash_at")):
            d = dict(o)
            d["timeout"] = float(o.get("timeout", 300)) * 3
            out.append(d)
            continue
        d = dict(o)
        d["params"] = dict(p, steps=p["steps"] + dsteps)
        d["timeout"] = float(o.get("timeout", 300)) * 4
        history = o["body"].endswith((":lifecycle", ":justified", ":quiescence", ":terminal", ":cancel", ":contexts", ":joins", ":items", ":retry", ":append_only", ":pure"))
        if history and "crash" not in p and "scenario" not in p:
            d["params"]["crash"] = "one"
        if p.get("control") in ("pause", "cancel", "either") and not o.get("fixed"):
            out.extend(control_slices(d, d["params"]["steps"] + 2))
        elif d["params"].get("crash") == "one" and not o.get("fixed"):
            # positions 0..steps+1, plus the histories without a restart
            out.extend(position_slices(d, "crash_at", d["params"]["steps"] + 2))
            e = dict(d)
            e["id"] = d["id"] + "@none"
            e["fixed"] = {"crash_at": -1}
            out.append(e)
        else:
            out.append(d)
    return out
