"""C06 - a task sees exactly the variables published by its causal ancestors."""
from vt.harness.common import history_body, ob
from vt.monitors import C06Context


def contexts(ch, ctx, did, **kw):
    return history_body("C06", lambda: [C06Context()], ch, ctx, did, tokens=True, **kw)


def obligations(tier):
    obs = []
    for did, steps in [("D03p", 4), ("D06p", 6), ("D08", 4), ("D09", 8), ("D09b", 8), ("D12p", 7), ("D13", 4), ("D13v", 4), ("D13i", 4), ("D13d", 6), ("D13e", 5), ("D27", 6), ("D18", 5), ("D20", 5), ("D30", 4)]:
        o = ob("C06", "e2c." + did, "vt.harness.C06:contexts", {"did": did, "steps": steps}, timeout=900)
        o["antecedents"] = ["c06_ctx_matched"]
        obs.append(o)
    o = ob("C06", "e2c.lazy.D27", "vt.harness.C06:contexts", {"did": "D27", "steps": 6, "lazy_start": 2, "statuses": ["succeeded"]}, timeout=900)
    o["antecedents"] = ["c06_ctx_matched"]
    obs.append(o)
    obs.append(ob("C06", "twin.D13", "vt.harness.C06:contexts", {"did": "D13", "steps": 4, "twin": True}, timeout=60))
    return obs
