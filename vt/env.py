"""The provider/environment model (DESIGN.md section 4).

Drives a real, unmodified WorkflowConductor through its public API. Every decision the
environment takes (which in-flight action reports next, with what status and result,
where a pause/cancel request lands, where the process crashes and restores) is asked of
a Chooser, so under CrossHair each is a solver-decided alternative.

Provider contract assumed (A1-A4): calls are serialised; every offered task/item is marked
running before any other event; an action reports a completed status at most once;
with-items results are accumulated by index.
"""
import json

import vt  # noqa: F401

from orquesta import conducting
from orquesta import events
from orquesta import exceptions as exc
from orquesta import statuses as S

COMPLETED = (S.SUCCEEDED, S.FAILED, S.EXPIRED, S.ABANDONED, S.CANCELED)
RESTING = (S.SUCCEEDED, S.FAILED, S.CANCELED, S.PAUSED)
REQUEST_KINDS = (S.RUNNING, S.PAUSING, S.PAUSED, S.RESUMING, S.CANCELING, S.CANCELED, S.FAILED, S.SUCCEEDED)
LIFECYCLE_REJECTIONS = (exc.InvalidWorkflowStatusTransition, exc.InvalidStatusTransition)


class Violation(Exception):
    def __init__(self, prop, monitor, msg, facts=None):
        super(Violation, self).__init__(msg)
        self.prop = prop
        self.monitor = monitor
        self.msg = msg
        self.facts = facts or {}
        self.definition = None
        self.log = None

    def signature(self):
        facts = ",".join("%s=%s" % (k, self.facts[k]) for k in sorted(self.facts))
        return "%s|%s|%s|%s" % (self.prop, self.definition, self.monitor, facts)


class Monitor(object):
    prop = None

    def fail(self, env, monitor, msg, **facts):
        v = Violation(self.prop or env.prop, monitor, msg + " | history: " + " ".join(env.log), facts)
        raise v

    def on_start(self, env):
        pass

    def after_call(self, env, name):
        pass

    def on_offer(self, env, tasks):
        pass

    def after_offers(self, env, tasks):
        pass

    def on_request(self, env, kind, rejected, before):
        pass

    def on_crash(self, env, data):
        pass

    def on_rerun(self, env, names, rejected, before):
        pass

    def on_started(self, env, act):
        pass

    def on_report(self, env, act, status, result):
        pass

    def on_quiescent(self, env):
        pass

    def on_end(self, env, complete):
        pass


class Act(object):
    """One action execution handed to the provider."""

    def __init__(self, task, route, item, n):
        self.task = task
        self.route = route
        self.item = item
        self.n = n
        self.due = None
        self.ctx = None
        self.visit = 0

    def label(self):
        s = self.task if self.route == 0 else "%s/%d" % (self.task, self.route)
        return s if self.item is None else "%s[%d]" % (s, self.item)


class Policy(object):
    def __init__(self, **kw):
        self.steps = 6
        self.statuses = (S.SUCCEEDED, S.FAILED)
        self.by_task = False
        self.bits = False
        self.tokens = False
        self.control = None  # None | "pause" | "cancel" | "either" (one of them) | "both" (independent positions)
        self.requests = False  # one extra status request of a symbolic kind at a symbolic boundary
        self.pause_as_paused = False
        self.cancel_as_canceled = False
        self.resume = True
        self.lazy_start = 0  # >0: up to that many times an offered task is started only after a further event (relaxes A2)
        self.lazy_after_rerun = False
        self.bit_values = None  # e.g. [True, False, None, "", [], {}, 0, "x"] for raw conditions
        self.resume_verbs = False  # the resume request is either `resuming` or `running` (symbolic)
        self.requested_first = False  # every action is reported requested before running
        self.early_resume = False  # a resume request may come at any boundary after the pause request
        self.rerun_probe = False  # one rerun request at a symbolic boundary while the workflow is not completed
        self.intermediate = False  # in-flight actions may report canceling/pausing before their final status
        self.rerun = None  # None | "default" | "explicit": one rerun request once the workflow has completed
        self.rerun_steps = 4
        self.rerun_ghost = False
        self.rerun_ok = False  # re-executed actions succeed
        self.rerun_order = True  # symbolic report order after the rerun as well
        self.crash = False  # False | "bits" (every subset of the first crash_max boundaries) | "one" | "two"
        self.crash_max = 6
        self.crash_init = False  # also allow a persist/restore before the very first call
        self.order = True
        self.max_inflight = 4
        self.item_value = lambda i: 100 + i
        for k, v in kw.items():
            if not hasattr(self, k):
                raise TypeError(k)
            setattr(self, k, v)


def jsonable(x):
    try:
        json.dumps(x)
        return x
    except Exception:
        return repr(x)


class Env(object):
    def __init__(self, ch, wf, prop, monitors=(), policy=None, inputs=None, spec=None):
        self.ch = ch
        self.wf = wf
        self.prop = prop
        self.monitors = list(monitors)
        self.policy = policy or Policy()
        self.inputs = wf.inputs if inputs is None else inputs
        self.spec = spec or wf.spec
        self.c = None
        self.inflight = []
        self.log = []
        self.calls = []
        self.started = []
        self.acc = {}
        self.visits = {}
        self.pause_req = False
        self.cancel_req = False
        self.ever_pause_req = False
        self.step = 0
        self.bnd = 0
        self.n_exec = 0
        self.last_offer = []
        self.crashes = 0
        self.rejected = 0
        self.counters = {}
        self.extra_req_done = False
        self.probe_done = False
        self.ctl_done = False
        self.script = []
        self.defers = 0
        self.rerun_done = False
        self.rerun_rejected = None
        self.rerun_names = []
        self.offer_log = []
        self.cancel_from = None
        self.match_ctx = False
        self.held = []

    def visible_ctx(self, act):
        return {k: v for k, v in (act.ctx or {}).items() if not k.startswith("__")}

    # ---- plumbing --------------------------------------------------------------------
    def violation(self, monitor, msg, **facts):
        raise Violation(self.prop, monitor, msg + " | history: " + " ".join(self.log), facts)

    def api(self, name, fn, *args, **kw):
        expect = kw.pop("expect", ())
        notify = kw.pop("notify", True)
        rec = [name] + [jsonable(a) for a in args]
        self.calls.append(rec)
        try:
            r = fn(*args)
        except expect as e:
            rec.append("raised:" + type(e).__name__)
            raise
        except Exception as e:
            rec.append("raised:" + type(e).__name__)
            self.violation(
                "escape",
                "%s%s raised %s: %s" % (name, tuple(rec[1:-1]), type(e).__name__, e),
                call=name,
                exc=type(e).__name__,
            )
        if notify:
            for m in self.monitors:
                m.after_call(self, name)
        return r

    def status(self):
        return self.c.get_workflow_status()

    # ---- provider actions ------------------------------------------------------------
    def create(self):
        self.c = conducting.WorkflowConductor(self.spec, inputs=self.inputs)
        self.calls.append(["new", self.wf.id, jsonable(self.inputs)])
        for m in self.monitors:
            m.on_start(self)

    def start(self):
        self.create()
        if self.policy.crash and self.policy.crash_init and self.ch.flag("crash_init"):
            self.crash()
        # a conductor whose input/vars rendering failed has already failed itself; the running
        # request is then a lifecycle rejection, not an escaped error
        e = self.try_request(S.RUNNING)
        if e is not None and self.status() not in (S.FAILED,):
            self.violation("escape", "request_workflow_status(running) on a new conductor raised %s: %s" % (type(e).__name__, e), call="request_workflow_status", exc=type(e).__name__)
        self.offers()

    def request(self, status, expect=()):
        self.log.append("REQ:" + status)
        if status in (S.CANCELING, S.CANCELED) and not self.cancel_req:
            self.cancel_from = self.status()
        self.api("request_workflow_status", self.c.request_workflow_status, status, expect=expect, notify=False)
        if status in (S.PAUSING, S.PAUSED):
            self.pause_req = True
            self.ever_pause_req = True
        if status in (S.CANCELING, S.CANCELED):
            self.cancel_req = True
        if status in (S.RESUMING, S.RUNNING):
            self.pause_req = False
        for m in self.monitors:
            m.after_call(self, "request_workflow_status")

    def try_request(self, status):
        """Issue a status request that the lifecycle may reject. Returns the exception or None."""
        try:
            self.request(status, expect=LIFECYCLE_REJECTIONS)
            return None
        except LIFECYCLE_REJECTIONS as e:
            self.log[-1] += "!rejected"
            self.rejected += 1
            return e

    def next_tasks(self):
        return self.api("get_next_tasks", self.c.get_next_tasks)

    def offers(self):
        nt = self.next_tasks()
        self.last_offer = nt
        self.offer_log.append(json.dumps(
            [[t["id"], t["route"], t.get("actions"), t.get("delay"), t.get("items_count"), t.get("concurrency"), t.get("ctx")] for t in nt],
            sort_keys=True, default=str))
        for m in self.monitors:
            m.on_offer(self, nt)
        deferred = []
        for t in nt:
            if self.policy.lazy_start and self.defers < self.policy.lazy_start and (self.rerun_done or not self.policy.lazy_after_rerun):
                # relaxed A2: the provider may process another event before it starts an offered
                # task; the conductor keeps offering it until it is started
                if self.ch.flag("defer%d:%s/%d@%d" % (self.defers, t["id"], t["route"], len(self.offer_log))):
                    self.defers += 1
                    deferred.append(t)
                    self.log.append("~%s" % t["id"])
                    continue
            self.start_task(t)
        if deferred and not self.inflight:
            for t in deferred:
                self.start_task(t)
        for m in self.monitors:
            m.after_offers(self, nt)
        return nt

    def _update(self, task, route, ev, desc):
        self.calls.append(["update_task_state", task, route] + desc)
        try:
            self.c.update_task_state(task, route, ev)
        except Exception as e:
            self.calls[-1].append("raised:" + type(e).__name__)
            self.violation(
                "escape",
                "update_task_state(%s, %s, %s) raised %s: %s" % (task, route, desc, type(e).__name__, e),
                call="update_task_state",
                exc=type(e).__name__,
            )
        for m in self.monitors:
            m.after_call(self, "update_task_state")

    def start_task(self, t):
        task, route = t["id"], t["route"]
        if "items_count" in t:
            key = (task, route)
            if t["items_count"] == 0:
                act = self._new_act(task, route, None, t)
                self.log.append("+" + act.label() + "(empty)")
                self._update(task, route, events.ActionExecutionEvent(S.RUNNING), ["action", S.RUNNING])
                self._update(task, route, events.ActionExecutionEvent(S.SUCCEEDED, result=[]), ["action", S.SUCCEEDED, []])
                for m in self.monitors:
                    m.on_report(self, act, S.SUCCEEDED, [])
                return
            if key not in self.acc or len(self.acc[key]) != t["items_count"]:
                self.acc[key] = [None] * t["items_count"]
            for a in t["actions"]:
                i = a["item_id"]
                act = self._new_act(task, route, i, t)
                self.log.append("+" + act.label())
                self._update(task, route, events.TaskItemActionExecutionEvent(i, S.RUNNING), ["item", i, S.RUNNING])
                self.inflight.append(act)
                for m in self.monitors:
                    m.on_started(self, act)
            return
        act = self._new_act(task, route, None, t)
        self.log.append("+" + act.label())
        if self.policy.requested_first:
            # A3: the action execution is reported as requested before it runs (what st2 does)
            self._update(task, route, events.ActionExecutionEvent(S.REQUESTED), ["action", S.REQUESTED])
            again = [x for x in self.c.get_next_tasks() if x["id"] == task and x["route"] == route]
            if again:
                self.violation("reoffer-after-requested", "%s the action execution of %s was reported as requested, yet the task is offered again" % (self.prop, act.label()), task=task)
        self._update(task, route, events.ActionExecutionEvent(S.RUNNING), ["action", S.RUNNING])
        self.inflight.append(act)
        for m in self.monitors:
            m.on_started(self, act)

    def _new_act(self, task, route, item, t):
        self.n_exec += 1
        act = Act(task, route, item, self.n_exec)
        act.ctx = t.get("ctx")
        act.delay = t.get("delay")
        if item is None or item == 0 or (task, route, "v") not in self.visits:
            pass
        k = (task, item)
        self.visits[k] = self.visits.get(k, 0) + 1
        act.visit = self.visits[k]
        self.started.append(act)
        return act

    def report(self, idx, status, result=None):
        act = self.inflight.pop(idx)
        self.log.append("-%s:%s" % (act.label(), status[:4]))
        self.script.append((act.label(), act.visit, status, result))
        if act.item is None:
            ev = events.ActionExecutionEvent(status, result=result)
            desc = ["action", status, jsonable(result)]
        else:
            acc = self.acc[(act.task, act.route)]
            acc[act.item] = result
            ev = events.TaskItemActionExecutionEvent(act.item, status, result=result, accumulated_result=list(acc))
            desc = ["item", act.item, status, jsonable(result), jsonable(list(acc))]
        self._update(act.task, act.route, ev, desc)
        for m in self.monitors:
            m.on_report(self, act, status, result)
        return act

    def try_rerun(self):
        """Ask for a rerun (default, or an explicit request set chosen bit by bit over the
        executed task records plus, optionally, one that does not exist)."""
        from orquesta import requests as rq

        p = self.policy
        self.rerun_done = True
        self.render_output()
        reqs = None
        names = []
        if p.rerun == "explicit":
            seen = []
            for e in self.c.workflow_state.sequence:
                k = (e["id"], e["route"])
                if e["id"] in ("fail", "noop", "continue", "retry") or k in seen:
                    continue
                seen.append(k)
            reqs = []
            for tid, route in seen:
                if self.ch.flag("rr:%s/%d" % (tid, route)):
                    reset = self.ch.flag("rr_reset:%s" % tid) if self.wf.has_items(tid) else False
                    reqs.append(rq.TaskRerunRequest.new(tid, route, reset_items=reset))
                    names.append("%s/%d%s" % (tid, route, "!" if reset else ""))
            if p.rerun_ghost and self.ch.flag("rr:ghost"):
                reqs.append(rq.TaskRerunRequest.new("ghost", 0))
                names.append("ghost/0")
            if not reqs:
                reqs = None
        self.rerun_names = names
        self.log.append("RERUN:" + (",".join(names) if names else "default"))
        before = self.snapshot()
        self.rerun_before_status = self.status()
        self.rerun_mark = len(self.started)
        self.rerun_seq_len = len(self.c.workflow_state.sequence)
        self.calls.append(["request_workflow_rerun", names])
        try:
            self.c.request_workflow_rerun(task_requests=reqs)
            self.rerun_rejected = None
        except (exc.InvalidTaskRerunRequest, exc.WorkflowIsActiveAndNotRerunableError) as e:
            self.rerun_rejected = e
            self.log[-1] += "!rejected"
        except Exception as e:
            self.violation("escape", "request_workflow_rerun(%s) raised %s: %s" % (names, type(e).__name__, e), call="request_workflow_rerun", exc=type(e).__name__)
        for m in self.monitors:
            m.on_rerun(self, names, self.rerun_rejected, before)
        for m in self.monitors:
            m.after_call(self, "request_workflow_rerun")
        if self.rerun_rejected is not None:
            return False
        if self.status() in COMPLETED:
            return False
        self.cancel_req = False
        self.pause_req = False
        self.offers()
        return True

    def crash(self):
        """Persist and restore the conductor (the provider may reload after any event)."""
        data = self.api("serialize", self.c.serialize)
        data = json.loads(json.dumps(data))
        self.c = self.api("deserialize", conducting.WorkflowConductor.deserialize, data)
        for m in self.monitors:
            m.on_crash(self, data)
        self.crashes += 1
        self.log.append("CRASH")
        return data

    def render_output(self):
        if self.status() in COMPLETED:
            self.api("render_workflow_output", self.c.render_workflow_output)

    # ---- choices ---------------------------------------------------------------------
    def choose_outcome(self, act):
        p = self.policy
        key = ("o:%s" % act.task if act.item is None else "o:%s[%d]" % (act.task, act.item)) if p.by_task else ("o%d" % self.step)
        act.okey = key
        if self.rerun_done and p.rerun_ok:
            status = S.SUCCEEDED
        elif len(p.statuses) == 2:
            status = p.statuses[0] if self.ch.flag(key) else p.statuses[1]
        else:
            status = p.statuses[self.ch.pick(key, len(p.statuses))]
        ok = status == S.SUCCEEDED
        if act.item is not None:
            return status, p.item_value(act.item)
        result = {}
        bits = (False, False)
        conds = [c for c, _, _ in self.wf.transitions(act.task)] if act.task in self.wf.tasks else []
        if p.bits and any(c in ("c0", "c1", "raw0", "raw1") for c in conds):
            bkey = ("b:%s" % act.task) if p.by_task else ("b%d" % self.step)
            # a bit the task's conditions never read is not a decision
            use0 = any(c in ("c0", "raw0") for c in conds)
            use1 = any(c in ("c1", "raw1") for c in conds)
            if p.bit_values:
                # condition values that are not booleans: a transition fires only on a true condition
                bits = (p.bit_values[self.ch.pick(bkey + ".0", len(p.bit_values))] if use0 else False,
                        p.bit_values[self.ch.pick(bkey + ".1", len(p.bit_values))] if use1 else False)
            else:
                bits = (self.ch.flag(bkey + ".0") if use0 else False, self.ch.flag(bkey + ".1") if use1 else False)
        result["c0"], result["c1"] = bits
        if p.tokens and act.task in self.wf.tasks:
            for k, (cond, pubs, do) in enumerate(self.wf.transitions(act.task)):
                for pv in pubs:
                    if isinstance(pv, str):
                        if p.by_task:
                            result["t%d_%s" % (k, pv)] = "%s.%d.%s" % (act.task, k, pv)
                        else:
                            result["t%d_%s" % (k, pv)] = "%s#v%d.%d.%s" % (act.label(), act.visit, k, pv)
        act.bits = bits
        return status, result

    def boundary(self):
        """The point between two provider events: control requests and crashes land here."""
        p = self.policy
        b = self.bnd
        self.bnd += 1
        if p.control in ("pause", "cancel", "either") and not self.ctl_done:
            if self.ch.lazy("ctl_at").is_(b):
                self.ctl_done = True
                kind = p.control
                if kind == "either":
                    kind = "pause" if self.ch.flag("ctl_is_pause") else "cancel"
                st = self.status()
                if kind == "pause" and st in (S.RUNNING, S.RESUMING):
                    self.request(S.PAUSED if p.pause_as_paused else S.PAUSING)
                    self.offers()
                elif kind == "cancel" and st in (S.RUNNING, S.PAUSING, S.PAUSED, S.RESUMING):
                    self.request(S.CANCELED if p.cancel_as_canceled else S.CANCELING)
                    self.offers()
        if p.early_resume and self.pause_req and not self.cancel_req and self.status() in (S.PAUSING, S.PAUSED):
            # the user may resume before the workflow has come to rest
            if self.ch.lazy("resume_at").is_(b):
                self.request(S.RESUMING)
                self.offers()
        if p.control == "both":
            # a pause and a cancel at independent positions (cancel from running, pausing, paused, resuming)
            if not self.ever_pause_req and not self.cancel_req and self.status() in (S.RUNNING, S.RESUMING):
                if self.ch.lazy("pause_at").is_(b):
                    self.request(S.PAUSED if p.pause_as_paused else S.PAUSING)
                    self.offers()
            if not self.cancel_req and self.status() in (S.RUNNING, S.PAUSING, S.PAUSED, S.RESUMING):
                if self.ch.lazy("cancel_at").is_(b):
                    self.request(S.CANCELED if p.cancel_as_canceled else S.CANCELING)
                    self.offers()
        if p.rerun_probe and not self.probe_done and self.status() not in COMPLETED and self.ch.lazy("probe_at").is_(b):
            # a rerun request while the workflow is not completed must be rejected and change nothing
            self.probe_done = True
            before = self.snapshot()
            st0 = self.status()
            self.log.append("RERUN?@" + st0)
            self.calls.append(["request_workflow_rerun", "probe"])
            try:
                self.c.request_workflow_rerun()
                accepted = True
            except exc.WorkflowIsActiveAndNotRerunableError:
                accepted = False
            except Exception as e:
                self.violation("escape", "request_workflow_rerun() on a %s workflow raised %s: %s" % (st0, type(e).__name__, e), call="request_workflow_rerun", exc=type(e).__name__)
            self.counters["rerun_probes"] = self.counters.get("rerun_probes", 0) + 1
            if accepted:
                self.violation("rerun-accepted-while-not-completed", "C17 a rerun request was accepted while the workflow was %s (now %s, offering %s)" % (st0, self.status(), [t["id"] for t in self.c.get_next_tasks()]), status=st0)
            if self.snapshot() != before:
                self.violation("rejected-rerun-effect", "C17 the rerun request rejected on a %s workflow changed the persisted state" % st0, status=st0)
        if p.requests and not self.extra_req_done and self.ch.lazy("req_at").is_(b):
            self.extra_req_done = True
            kind = REQUEST_KINDS[self.ch.pick("req_kind", len(REQUEST_KINDS))]
            before = self.snapshot()
            e = self.try_request(kind)
            for m in self.monitors:
                m.on_request(self, kind, e, before)
            if e is None:
                self.offers()
        if p.crash == "bits" and b < p.crash_max and self.ch.flag("crash%d" % b):
            self.crash()
        elif p.crash == "one" and self.ch.lazy("crash_at").is_(b):
            self.crash()
        elif p.crash == "two" and (self.ch.lazy("crash_at").is_(b) or self.ch.lazy("crash2_at").is_(b)):
            self.crash()

    def run(self):
        p = self.policy
        self.start()
        while True:
            self.boundary()
            if not self.inflight:
                if self.pause_req and self.status() == S.PAUSED and p.resume:
                    # both verbs the lifecycle accepts as a resume
                    self.request(S.RUNNING if (p.resume_verbs and self.ch.flag("resume_with_running")) else S.RESUMING)
                    self.offers()
                    if self.inflight:
                        continue
                for m in self.monitors:
                    m.on_quiescent(self)
                if p.rerun and not self.rerun_done and self.status() in COMPLETED and self.try_rerun():
                    if self.inflight:
                        continue
                    for m in self.monitors:
                        m.on_quiescent(self)
                break
            if self.step >= p.steps + (p.rerun_steps if self.rerun_done else 0):
                break  # bound reached with actions still in flight: truncated history
            ordered = p.order and (p.rerun_order or not self.rerun_done)
            idx = self.ch.pick("r%d" % self.step, min(len(self.inflight), p.max_inflight)) if ordered else 0
            idx = min(idx, len(self.inflight) - 1)
            act = self.inflight[idx]
            if p.intermediate and (self.cancel_req or self.pause_req) and not getattr(act, "intermediate", False):
                # A3: after a cancel/pause request the provider may cascade it to the action, which
                # then reports the intermediate status before its final one
                if self.ch.flag("im%d" % self.step):
                    act.intermediate = True
                    st_ = S.CANCELING if self.cancel_req else S.PAUSING
                    self.log.append("~%s:%s" % (act.label(), st_))
                    if act.item is None:
                        self._update(act.task, act.route, events.ActionExecutionEvent(st_), ["action", st_])
                    else:
                        self._update(act.task, act.route, events.TaskItemActionExecutionEvent(act.item, st_), ["item", act.item, st_])
                    self.step += 1
                    self.offers()
                    continue
            status, result = self.choose_outcome(act)
            self.report(idx, status, result)
            self.step += 1
            self.offers()
        complete = not self.inflight
        if complete:
            self.render_output()
        for m in self.monitors:
            m.on_end(self, complete)
        return self.status()

    def snapshot(self):
        """The persisted form, canonically serialised (what a provider would write to its store)."""
        return json.dumps(self.c.serialize(), sort_keys=True)

    # ---- observations ----------------------------------------------------------------
    def executed(self):
        """Multiset of task executions recorded by the conductor (engine commands excluded)."""
        from vt.defs import CMDS

        return sorted(e["id"] for e in self.c.workflow_state.sequence if e["id"] not in CMDS)

    def summary(self):
        return {
            "def": self.wf.id,
            "history": " ".join(self.log),
            "status": self.status(),
        }


class Unschedulable(Exception):
    pass


def completion_script(env):
    """The order and outcomes in which actions reported in a finished run (for twin runs)."""
    return list(env.script)


def run_script(env, script, drain=True):
    """Drive env through the given completion order with no control requests."""
    env.start()
    for label, visit, status, result in script:
        idx = None
        for i, a in enumerate(env.inflight):
            if a.label() == label and a.visit == visit:
                idx = i
                break
        if idx is None:
            raise Unschedulable("%s#%d is not in flight in the twin run (in flight: %s) | twin history: %s" % (label, visit, [a.label() for a in env.inflight], " ".join(env.log)))
        env.report(idx, status, result)
        env.step += 1
        env.offers()
    # actions that only this run started (the other run was held back and then finished
    # without them) are drained with a canonical successful report
    env.extra_work = [a.label() for a in env.inflight]
    guard = 0
    while env.inflight and drain and guard < 12:
        guard += 1
        act = env.inflight[0]
        env.report(0, S.SUCCEEDED, env.policy.item_value(act.item) if act.item is not None else {"c0": False, "c1": False})
        env.offers()
    complete = not env.inflight
    if complete:
        for m in env.monitors:
            m.on_quiescent(env)
        env.render_output()
    for m in env.monitors:
        m.on_end(env, complete)
    return complete


def outcome(env):
    """What a user observes at the end of a run."""
    errs = sorted(json.dumps(e, sort_keys=True) for e in env.c.errors)
    return {
        "status": env.status(),
        "executed": env.executed(),
        "errors": errs,
        "output": env.c.get_workflow_output(),
    }
