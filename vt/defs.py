"""Definition catalogue.

Definitions are written once in a small harness-side notation from which both the
orquesta definition (a dict in the documented workflow language) and the reference
model used by the oracle are generated. Definition text is built from dicts and by
concatenation only (never with the % operator).

Task:  {"next": [(cond, publishes, targets), ...], "join": None|"all"|int,
        "items": n, "conc": None|int|str, "retry": {...}, "delay": int}
cond:  "any" | "ok" | "fail" | "c0" | "c1" (succeeded and result bit) |
       ("lt", var, k) | ("ge", var, k)  (context counter tests, for loops)
publish entry: var  (taint token taken from the action result) |
       (var, "inc") (counter increment) | (var, ("const", v))
"""
import vt  # noqa: F401  (puts the repository under test on sys.path)

from orquesta.specs import native as native_specs

CMDS = ("fail", "noop", "continue", "retry")


class WfDef(object):
    def __init__(self, did, tasks, vars=None, output=None, lang="yaql", inputs=None, input_decl=None):
        self.id = did
        self.tasks = tasks
        self.vars = vars or {}
        self.output = output or []
        self.lang = lang
        self.inputs = inputs or {}
        self.input_decl = input_decl or []
        self._spec = None
        self.names = sorted(tasks)

    # ---- reference-model accessors (definition level only) ---------------------------
    def transitions(self, task):
        out = []
        for tr in self.tasks[task].get("next", []):
            cond, pubs, do = tr
            out.append((cond, pubs, do))
        return out

    def inbound(self, task):
        return sorted({p for p in self.tasks for _, _, do in self.transitions(p) if task in do})

    def roots(self):
        return sorted(n for n in self.tasks if not self.inbound(n))

    def is_join(self, task):
        return bool(self.tasks[task].get("join"))

    def need(self, task):
        j = self.tasks[task]["join"]
        return len(self.inbound(task)) if j == "all" else j

    def has_items(self, task):
        return "items" in self.tasks[task]

    # ---- orquesta definition -----------------------------------------------------------
    def _e(self, body):
        return ("<% " + body + " %>") if self.lang == "yaql" else ("{{ " + body + " }}")

    def _when(self, cond):
        if cond == "any":
            return None
        if cond == "ok":
            return self._e("succeeded()")
        if cond == "fail":
            return self._e("failed()")
        if cond in ("c0", "c1"):
            return self._e("succeeded() and result()." + cond)
        if cond in ("raw0", "raw1"):
            return self._e("result().c" + cond[-1])
        if isinstance(cond, tuple) and cond[0] == "lt":
            return self._e("succeeded() and ctx()." + cond[1] + " < " + str(cond[2]))
        if isinstance(cond, tuple) and cond[0] == "ge":
            return self._e("succeeded() and ctx()." + cond[1] + " >= " + str(cond[2]))
        raise ValueError(cond)

    def _publish(self, k, p, items=False):
        if isinstance(p, str) and items:
            return {p: self._e("result()")}
        if isinstance(p, str):
            if self.lang == "yaql":
                return {p: self._e("result().get(t" + str(k) + "_" + p + ")")}
            return {p: self._e("result().get('t" + str(k) + "_" + p + "')")}
        var, kind = p
        if isinstance(kind, tuple) and kind[0] == "expr":
            return {var: self._e(kind[1])}
        if kind == "inc":
            return {var: self._e("ctx()." + var + " + 1")}
        if isinstance(kind, tuple) and kind[0] == "copy":
            return {var: self._e("ctx()." + kind[1])}
        if isinstance(kind, tuple) and kind[0] == "const":
            return {var: kind[1]}
        raise ValueError(p)

    def to_dict(self):
        tasks = {}
        for n, t in self.tasks.items():
            ts = {"action": t.get("action", "core.noop")}
            if t.get("join"):
                ts["join"] = t["join"]
            if "items" in t:
                w = {"items": self._e("ctx().xs")}
                if t.get("conc") is not None:
                    w["concurrency"] = t["conc"]
                ts["with"] = w
                ts["action"] = "core.echo"
                ts["input"] = {"message": self._e("item()")}
            if t.get("retry"):
                ts["retry"] = dict(t["retry"])
            if t.get("delay") is not None:
                ts["delay"] = t["delay"]
            if t.get("input"):
                ts["input"] = t["input"]
            nx = []
            for k, (cond, pubs, do) in enumerate(t.get("next", [])):
                tr = {}
                w = self._when(cond)
                if w:
                    tr["when"] = w
                if pubs:
                    tr["publish"] = [self._publish(k, p, "items" in t) for p in pubs]
                if do:
                    tr["do"] = list(do)
                nx.append(tr)
            if nx:
                ts["next"] = nx
            tasks[n] = ts
        w = {"version": 1.0, "tasks": tasks}
        if self.input_decl:
            w["input"] = list(self.input_decl)
        if self.vars:
            w["vars"] = [{k: v} for k, v in self.vars.items()]
        if self.output:
            out = []
            for v in self.output:
                if self.lang == "yaql":
                    out.append({v: self._e("ctx().get(" + v + ")")})
                else:
                    out.append({v: self._e("ctx().get('" + v + "')")})
            w["output"] = out
        return w

    @property
    def spec(self):
        if self._spec is None:
            self._spec = native_specs.WorkflowSpec(self.to_dict())
            errs = self._spec.inspect()
            if errs:
                raise AssertionError("catalogue definition %s does not pass inspection: %s" % (self.id, errs))
        return self._spec


def T(next=None, **kw):
    d = dict(kw)
    if next:
        d["next"] = [(c, list(p), list(do)) for c, p, do in next]
    return d


def _catalogue():
    c = {}

    def add(did, tasks, **kw):
        c[did] = WfDef(did, tasks, **kw)

    # D01 sequence
    add("D01", {"a": T([("ok", [], ["b"])]), "b": T([("ok", [], ["c"])]), "c": T()})
    # D02 fork
    add("D02", {"s": T([("ok", [], ["a", "b"])]), "a": T(), "b": T([("ok", [], ["c"])]), "c": T()})
    # D03 decision with an explicit fail
    add("D03", {"s": T([("c0", [], ["a"]), ("c1", [], ["b"]), ("fail", [], ["fail"])]), "a": T(),
                "b": T([("ok", [], ["c"])]), "c": T()})
    # D04 join-all of two
    add("D04", {"s": T([("any", [], ["a", "b"])]), "a": T([("any", [], ["j"])]),
                "b": T([("ok", [], ["j"])]), "j": T(join="all")})
    # D05 join: 2 of three, with a successor
    add("D05", {"s": T([("any", [], ["a", "b", "c"])]), "a": T([("ok", [], ["j"])]),
                "b": T([("ok", [], ["j"])]), "c": T([("ok", [], ["j"])]),
                "j": T([("any", [], ["z"])], join=2), "z": T()})
    # D05a join: 3 of three
    add("D05a", {"s": T([("any", [], ["a", "b", "c"])]), "a": T([("ok", [], ["j"])]),
                 "b": T([("ok", [], ["j"])]), "c": T([("ok", [], ["j"])]),
                 "j": T(join=3)})
    # D05b join: 1 of two
    add("D05b", {"s": T([("any", [], ["a", "b"])]), "a": T([("ok", [], ["j"])]),
                 "b": T([("ok", [], ["j"])]), "j": T([("ok", [], ["z"])], join=1), "z": T()})
    # D06 multi-referenced task without join (split routes) with a successor
    add("D06", {"s": T([("any", [], ["a", "b"])]), "a": T([("ok", [], ["x"])]),
                "b": T([("ok", [], ["x"])]), "x": T([("any", [], ["y"])]), "y": T()})
    # D07 run-on-fail: failure -> cleanup + fail
    add("D07", {"s": T([("any", [], ["a", "x"])]),
                "a": T([("fail", [], ["cleanup", "fail"]), ("ok", [], ["b"])]),
                "cleanup": T(), "x": T(), "b": T()})
    # D07w clean-up task with items (stays staged while its items run) beside fail, sibling with a successor
    add("D07w", {"s": T([("any", [], ["a", "x"])]),
                 "a": T([("fail", [], ["cleanup", "fail"]), ("ok", [], ["b"])]),
                 "cleanup": T(items=2, conc=1), "x": T([("ok", [], ["y"])]), "y": T(), "b": T()},
        inputs={"xs": [10, 11]}, input_decl=["xs"])
    # D11j with-items task whose failure is remediated, both outcomes converging on a join
    add("D11j", {"w": T([("ok", [], ["x"]), ("fail", [], ["y"])], items=2, conc=2),
                 "x": T([("ok", [], ["j"])]), "y": T([("ok", [], ["j"])]), "j": T(join="all")},
        inputs={"xs": [10, 11]}, input_decl=["xs"])
    # D08 noop / implicit continue with publish
    add("D08", {"a": T([("fail", [], ["noop"]), ("ok", ["y"], ["b", "c"])]),
                "b": T([("fail", ["z"], [])]), "c": T()}, output=["y", "z"])
    # D09 counter-bounded loop, one entry and one back edge
    add("D09", {"init": T([("ok", [], ["a"])]), "a": T([("ok", [("i", "inc")], ["b"])]),
                "b": T([(("lt", "i", 2), [], ["a"]), (("ge", "i", 2), [], ["c"])]), "c": T()},
        vars={"i": 0})
    # D09b loop whose back edge publishes the counter that the sibling exit transition tests
    add("D09b", {"init": T([("ok", [], ["a"])]), "a": T([("ok", [], ["b"])]),
                 "b": T([(("lt", "i", 2), [("i", "inc")], ["a"]), (("ge", "i", 2), [], ["c"])]), "c": T()},
        vars={"i": 0})
    # D10 retry beside a parallel branch
    add("D10", {"s": T([("any", [], ["a", "b"])]),
                "a": T([("ok", ["pa"], ["c"])], retry={"count": 2, "delay": 3}),
                "b": T(), "c": T()}, output=["pa"])
    # D10c retry command in a transition
    add("D10c", {"a": T([("fail", [], ["retry"]), ("ok", [], ["b"])]), "b": T()})
    # D10e retry with count and delay taken from the context (input n, d)
    add("D10e", {"a": T([("ok", [], ["b"])], retry={"count": "<% ctx().n %>", "delay": "<% ctx().d %>"}), "b": T()},
        inputs={"n": 1, "d": 4}, input_decl=["n", "d"])
    # D10s retry on a multi-referenced task (runs once per route, each with its own attempts)
    add("D10s", {"s": T([("any", [], ["a", "b"])]), "a": T([("ok", [], ["x"])]), "b": T([("ok", [], ["x"])]),
                 "x": T([("fail", [], ["r"])], retry={"count": 1}), "r": T()})
    # D10l retry inside a loop, count from a context variable that changes between visits
    add("D10l", {"init": T([("ok", [], ["a"])]),
                 "a": T([("ok", [("i", "inc"), ("n", ("const", 0))], ["b"])], retry={"count": "<% ctx().n %>", "delay": 2}),
                 "b": T([(("lt", "i", 2), [], ["a"]), (("ge", "i", 2), [], ["c"])]), "c": T()},
        vars={"i": 0, "n": 1})
    # D10w retry on a with-items task
    add("D10w", {"w": T([("ok", [], ["z"])], items=2, conc=1, retry={"count": 1}), "z": T()},
        inputs={"xs": [10, 11]}, input_decl=["xs"])
    # D11 with-items (3 items, concurrency 2) with successor and output
    add("D11", {"w": T([("ok", ["out"], ["z"])], items=3, conc=2), "z": T()},
        inputs={"xs": [10, 11, 12]}, input_decl=["xs"], output=["out"])
    # D11s with-items beside a sibling that can fail
    add("D11s", {"s": T([("any", [], ["w", "a"])]), "w": T(items=3, conc=1), "a": T()},
        inputs={"xs": [10, 11, 12]}, input_decl=["xs"])
    # D12 join with a branch that can fail, be remediated or not transition
    add("D12", {"s": T([("any", [], ["a", "b"])]),
                "a": T([("ok", [], ["j"]), ("fail", [], ["r"])]),
                "b": T([("ok", [], ["j"])]), "r": T(),
                "j": T([("any", [], ["z"])], join="all"), "z": T()})
    # D12p same with publishes and output (pause/crash twins)
    add("D12p", {"s": T([("any", ["ps"], ["a", "b"])]),
                 "a": T([("ok", ["pa"], ["j"]), ("fail", ["pr"], ["r"])]),
                 "b": T([("ok", ["pb"], ["c"])]), "c": T([("ok", [], ["j"])]), "r": T(),
                 "j": T([("any", ["pj"], ["z"])], join="all"), "z": T()},
        output=["ps", "pa", "pb", "pr", "pj"])
    # D13 conflicting and inherited publishes into a join with output (three variants)
    add("D13", {"s": T([("any", ["x"], ["a", "b"])]), "a": T([("ok", ["x"], ["j"]), ("fail", [], ["j"])]),
                "b": T([("any", [], ["j"])]), "j": T(join="all")}, vars={"x": "init"}, output=["x"])
    add("D13v", {"s": T([("any", [], ["a", "b"])]), "a": T([("any", ["x"], ["j"])]),
                 "b": T([("any", ["y"], ["j"])]), "j": T(join="all")}, vars={"x": "init"}, output=["x", "y"])
    add("D13i", {"s": T([("any", ["x", "y"], ["a", "b"])]), "a": T([("any", ["x"], ["j"])]),
                 "b": T([("any", ["x", "z"], ["j"])]), "j": T(join="all")}, vars={"x": "init"},
        output=["x", "y", "z"])
    # D13d independent publishes of one variable, one of them two hops before the join
    add("D13d", {"s": T([("any", [], ["a1", "b1"])]), "a1": T([("any", ["x"], ["a2"])]), "a2": T([("any", [], ["j"])]),
                 "b1": T([("any", ["x"], ["j"])]), "j": T([("any", [], ["z"])], join="all"), "z": T()}, vars={"x": "init"}, output=["x"])
    # D20 two independent start branches of different length, each publishing its own output variable
    add("D20", {"A": T([("ok", ["a"], ["A2"])]), "A2": T(), "B": T([("ok", ["b"], ["B1"])]), "B1": T([("ok", [], ["B2"])]), "B2": T()},
        output=["a", "b"])
    # D21 two branches whose first tasks may report paused/pending (A5 harness)
    add("D21", {"s": T([("ok", [], ["a", "b"])]), "a": T([("ok", [], ["d"])]), "b": T([("ok", [], ["c"])]), "c": T(), "d": T()})
    # D19 a multiply-referenced task inside a self loop (all arrivals share one route), fed by two branches
    add("D19", {"init": T([("any", [], ["fast", "slow"])]), "fast": T([("ok", ["who"], ["work"])]), "slow": T([("ok", ["who"], ["work"])]),
                "work": T([("c0", [], ["work"]), ("c1", [], ["done"])]), "done": T()}, vars={"who": "nobody"})
    # D22 a dict-valued variable re-published with an overlapping nested key by two branches
    add("D22", {"s": T([("any", [], ["a", "c"])]), "a": T([("ok", [("cfg", ("const", {"level": 1}))], ["b"])]),
                "c": T([("ok", [("cfg", ("const", {"level": 2, "extra": [1]}))], ["e"])]),
                "b": T([("ok", [("seen", ("expr", "ctx().cfg.level"))], ["f"])]), "e": T(), "f": T()},
        vars={"cfg": {"level": 0, "base": {"k": 1}}}, output=["seen", "cfg"])
    # D23 with-items task revisited through a remediation loop (the staged entry of a failed with-items task is kept)
    add("D23", {"init": T([("ok", [], ["w"])]), "w": T([("fail", ["pf"], ["r"]), ("ok", [], ["z"])], items=2, conc=1),
                "r": T([("ok", ["pr"], ["w"])]), "z": T()},
        inputs={"xs": [10, 11]}, input_decl=["xs"])
    # D25 fan-out whose transitions are not written in alphabetical order of their targets, each publishing
    add("D25", {"s": T([("any", ["x"], ["zz"]), ("any", ["y"], ["mm", "aa"])]), "zz": T([("ok", [], ["k"])]), "mm": T(), "aa": T([("ok", [], ["k"])]), "k": T()},
        output=["x", "y"])
    # D14 nested split followed by a fork-join: x runs once per inbound route, each with its own c, d and join j
    add("D14", {"s": T([("any", [], ["a", "b"])]), "a": T([("ok", [], ["x"])]), "b": T([("ok", [], ["x"])]),
                "x": T([("ok", [], ["c", "d"])]), "c": T([("ok", [], ["j"])]), "d": T([("ok", [], ["j"])]), "j": T(join="all")})
    # D13e both branches publish x as constants; branch a re-publishes the very value it inherited
    add("D13e", {"s": T([("any", [], ["a", "b"])]), "a": T([("any", [("x", ("const", "v0"))], ["j"])]),
                 "b": T([("any", [("x", ("const", "v1"))], ["j"])]), "j": T([("any", [], ["z"])], join="all"), "z": T()},
        vars={"x": "v0"}, output=["x"])
    # D22b a dict-valued variable first published by a task, re-published as a dict by one of two branches forked later
    add("D22b", {"t0": T([("ok", [("cfg", ("const", {"region": "eu"}))], ["t1"])]), "t1": T([("ok", [], ["a1", "b1"])]),
                 "a1": T([("ok", [("cfg", ("const", {"zone": "z1"}))], ["a2"])]), "a2": T(),
                 "b1": T([("ok", [("seen", ("expr", "ctx().cfg"))], ["b2"])]), "b2": T([("ok", [("keys", ("expr", "ctx().cfg.keys().orderBy($)"))], [])])},
        output=["seen", "keys"])
    # D03r decision on raw (not necessarily boolean) result values
    add("D03r", {"s": T([("raw0", [], ["a"]), ("raw1", [], ["b"])]), "a": T(), "b": T([("ok", [], ["c"])]), "c": T()})
    # D11u with-items task behind an upstream task (rerun of the upstream task must run the items again)
    add("D11u", {"t1": T([("ok", [], ["w"])]), "w": T([("ok", ["out"], ["z"])], items=3, conc=2), "z": T()},
        inputs={"xs": [10, 11, 12]}, input_decl=["xs"], output=["out"])
    # D26 an action that may report pending beside a with-items task with more items than its concurrency
    add("D26", {"s": T([("any", [], ["a", "w"])]), "a": T([("ok", [], ["d"])]), "w": T(items=3, conc=1), "d": T()},
        inputs={"xs": [10, 11, 12]}, input_decl=["xs"])
    # D27 a task with one non-publishing transition into a join and a sibling task; an ancestor published
    add("D27", {"s": T([("any", ["p"], ["l", "r"])]), "l": T([("any", [], ["j", "n"])]), "r": T([("any", ["q"], ["j"])]),
                "j": T(join="all"), "n": T([("any", [], ["n2"])]), "n2": T()}, vars={"x": "init"}, output=["x", "p"])
    # D28 a task with a retry policy reached by two branches inside a loop (all arrivals share the route)
    add("D28", {"init": T([("ok", [], ["start"])]), "start": T([("any", [], ["a", "b"])]), "a": T([("ok", [], ["x"])]), "b": T([("ok", [], ["x"])]),
                "x": T([("c0", [], ["start"]), ("fail", [], ["noop"])], retry={"count": 1, "delay": 5}, delay=2)})
    # D29 a loop whose body also transitions, on every iteration, to a multi-referenced task outside the loop
    # (each firing opens a new route with the same route details)
    add("D29", {"init": T([("ok", [], ["work"]), ("fail", [], ["audit"])]),
                "work": T([(("lt", "i", 1), [("i", "inc")], ["work"]), ("ok", [], ["audit"])]),
                "audit": T([("ok", [], ["archive"])]), "archive": T()}, vars={"i": 0})
    # D29w the same with a with-items task as the multi-referenced task
    add("D29w", {"init": T([("ok", [], ["work"]), ("fail", [], ["w"])]),
                 "work": T([(("lt", "i", 1), [("i", "inc")], ["work"]), ("ok", [], ["w"])]),
                 "w": T(items=2, conc=2)}, vars={"i": 0}, inputs={"xs": [10, 11]}, input_decl=["xs"])
    # D04r join-all whose inbound transitions are guarded by raw (not necessarily boolean) result values
    add("D04r", {"s": T([("any", [], ["a", "b"])]), "a": T([("raw0", [], ["j"])]),
                 "b": T([("raw0", [], ["j"])]), "j": T([("any", [], ["z"])], join="all"), "z": T()})
    # D30 sibling transitions of one task: the first publishes i, the second copies i, the third tests i;
    # each transition is evaluated against the context the task itself saw
    add("D30", {"s": T([("any", [("i", ("const", 5))], ["a"]), ("any", [("seen", ("copy", "i"))], ["b"]), (("ge", "i", 1), [], ["z"])]),
                "a": T(), "b": T(), "z": T()}, vars={"i": 0}, output=["seen"])
    # D31 vars that fail to render for the given input (the conductor fails itself when its state is first set up)
    add("D31", {"a": T([("ok", [], ["b"])]), "b": T()}, vars={"limit": "<% int(ctx().count) %>"},
        inputs={"count": "many"}, input_decl=["count"])
    # D32 a retry condition that cannot be evaluated for a failed attempt (the result has no such key), beside a parallel branch
    add("D32", {"s": T([("any", [], ["a", "b"])]),
                "a": T([("ok", [], ["c"])], retry={"when": "<% failed() and result().nokey %>", "count": 2}),
                "b": T(), "c": T()})
    # D06p split routes with publishes
    add("D06p", {"s": T([("any", ["x"], ["a", "b"])]), "a": T([("any", ["y"], ["m"])]),
                 "b": T([("any", ["x"], ["m"])]), "m": T([("any", ["w"], ["n"])]), "n": T()},
        vars={"x": "init"})
    # D03p decision with publishes
    add("D03p", {"s": T([("ok", ["x"], ["a"]), ("fail", ["y"], ["b"])]), "a": T([("any", ["z"], ["c"])]),
                 "b": T([("any", [], ["c"])]), "c": T()}, vars={"x": "init"})
    # D15 two transitions to the same target (parallel edges) + noop
    add("D15", {"a": T([("c0", [], ["b"]), ("c1", [], ["b"]), ("fail", [], ["noop"])]),
                "b": T([("ok", [], ["c"])]), "c": T()})
    # D16 task delay
    add("D16", {"a": T([("ok", [], ["b"])]), "b": T(delay=7)})
    # D17 decision in Jinja
    add("D17", {"s": T([("c0", [], ["a"]), ("c1", [], ["b"]), ("fail", [], ["fail"])]), "a": T(),
                "b": T([("ok", [], ["c"])]), "c": T()}, lang="jinja")
    # D18 rerun shape: branch of depth two into a join, with publishes
    add("D18", {"s": T([("any", [], ["a", "b"])]), "a": T([("ok", ["pa"], ["c"])]),
                "c": T([("ok", [], ["j"])]), "b": T([("ok", ["pb"], ["j"])]),
                "j": T([("ok", ["pj"], [])], join="all")}, output=["pa", "pb", "pj"])
    return c


CATALOGUE = _catalogue()


def get(did):
    if did not in CATALOGUE and did.startswith("W["):
        # parametric with-items definitions are (re)built from their id in every process
        import re as _re

        m = _re.match(r"W\[n=(\d+),k=(None|-?\d+)(,expr)?(,sib)?(,dups)?\]", did)
        items_def(int(m.group(1)), None if m.group(2) == "None" else int(m.group(2)), bool(m.group(3)), bool(m.group(4)), bool(m.group(5)))
    return CATALOGUE[did]


def items_def(n, conc=None, conc_expr=False, sibling=False, dups=False):
    """With-items task over n items with the given concurrency (literal, or taken from the input k)."""
    did = "W[n=%d,k=%s%s%s%s]" % (n, conc, ",expr" if conc_expr else "", ",sib" if sibling else "", ",dups" if dups else "")
    if did in CATALOGUE:
        return CATALOGUE[did]
    inputs = {"xs": [10 + (i % 2 if dups else i) for i in range(n)]}
    decl = ["xs"]
    c = conc
    if conc_expr:
        inputs["k"] = conc
        decl.append("k")
        c = "<% ctx().k %>"
    tasks = {"w": T([("ok", ["out"], ["z"])], items=n, conc=c), "z": T()}
    if sibling:
        tasks = {"s": T([("any", [], ["w", "a"])]), "w": T([("ok", ["out"], ["z"])], items=n, conc=c), "z": T(), "a": T()}
    wf = WfDef(did, tasks, inputs=inputs, input_decl=decl, output=["out"])
    CATALOGUE[did] = wf
    return wf


def join_def(need, branches=3):
    """s forks into `branches` tasks, each transitions into j when it succeeded with result bit c0."""
    did = "J[%s/%d]" % (need, branches)
    if did in CATALOGUE:
        return CATALOGUE[did]
    names = ["p%d" % i for i in range(branches)]
    tasks = {"s": T([("any", [], names)]), "j": T([("any", [], ["z"])], join=need), "z": T()}
    for nme in names:
        tasks[nme] = T([("c0", [], ["j"])])
    wf = WfDef(did, tasks)
    CATALOGUE[did] = wf
    return wf


def parallel_roots(n=3):
    did = "R[%d]" % n
    if did in CATALOGUE:
        return CATALOGUE[did]
    tasks = {}
    for i in range(n):
        tasks["t%d" % i] = T([("ok", ["p%d" % i], ["u%d" % i])])
        tasks["u%d" % i] = T()
    wf = WfDef(did, tasks, output=["p%d" % i for i in range(n)])
    CATALOGUE[did] = wf
    return wf
