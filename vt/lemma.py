"""Helpers for E1 kernel lemmas (real function, symbolic arguments, traced by CrossHair)."""
from crosshair.tracers import NoTracing

CEX = {}
PATHS = [0]


def path():
    with NoTracing():
        PATHS[0] += 1


def realize(v):
    from crosshair.core import deep_realize

    return deep_realize(v)


def fail(lemma_id, fmt, **args):
    """Record the (realised) arguments of a failing lemma and fail the path. The message is
    formatted from the realised values only (formatting symbolic values would fork)."""
    real = {}
    for k, v in args.items():
        try:
            real[k] = realize(v)
        except Exception:
            real[k] = repr(v)
    with NoTracing():
        try:
            msg = fmt.format(**real)
        except Exception:
            msg = fmt
        if not CEX:
            CEX.update({"lemma": lemma_id, "message": msg, "args": real})
    raise AssertionError(msg)


def check(cond, lemma_id, fmt, **args):
    if not cond:
        fail(lemma_id, fmt, **args)
