"""Reference semantics, written from docs/source/languages/orquesta.rst.

Knows nothing about the conductor's internals: it consumes the same observable events
(task X completed with status ok/failed, result bits) and works on the harness-side
definition (vt.defs.WfDef). It predicts

* which tasks become due (token game: one token per satisfied transition and target;
  a join consumes tokens of distinct predecessors and fires once per satisfaction),
* the context each due task must see (causal-history bindings),
* whether the workflow must fail (unhandled failure, fail command, unreachable join).

Every rule is tied to a sentence of the property statements or the language docs:
 - continue does not remediate a failure, noop does, a transition into a task or join does.
 - a published value is superseded only by a publish of the same variable whose publisher
   had itself received the earlier value; independent values: later arrival wins; an
   inherited older value never overrides a newer one.
"""


class Binding(object):
    """A variable binding: value token, publish id, and the publish ids (same variable)
    its publisher had received."""

    __slots__ = ("tok", "pid", "seen")

    def __init__(self, tok, pid, seen):
        self.tok = tok
        self.pid = pid
        self.seen = seen

    def __repr__(self):
        return "B(%r,#%d)" % (self.tok, self.pid)


def merge_binding(cur, nb):
    if cur is None:
        return nb
    if nb.pid == cur.pid:
        return cur
    if cur.pid in nb.seen:
        return nb  # nb supersedes what cur carries
    if nb.pid in cur.seen:
        return cur  # nb merely inherited an older value
    return nb  # independent values: the later arrival wins


class Due(object):
    """One task execution the definition prescribes."""

    def __init__(self, task, ctx, cause, inst=()):
        self.task = task
        self.ctx = ctx  # var -> Binding
        self.cause = cause  # description for messages
        self.matched = False
        # the instance of the execution: the split transitions control came through (the docs:
        # a task with several inbound transitions and no join runs once per inbound transition,
        # each run spawning its own instance of everything downstream)
        self.inst = inst

    def visible(self):
        return {k: b.tok for k, b in self.ctx.items()}


class Oracle(object):
    def __init__(self, wf):
        self.wf = wf
        self.pid = 0
        self.pubs = {0: "init"}
        self.joins = [n for n in wf.tasks if wf.is_join(n)]
        self.arrived = {n: {} for n in self.joins}  # join -> pred -> True (all instances, for messages)
        self.arrived_i = {}  # (join, instance) -> pred -> True
        self.join_ctx = {}  # (join, instance) -> merged ctx
        self.fired = {n: 0 for n in self.joins}
        self.fired_i = {}
        self.split_fired = {}
        self.splits = {n for n in wf.tasks if not wf.is_join(n) and len(self._inbound_edges(n)) > 1 and not self._in_cycle(n)}
        self.failed = False
        self.fail_reasons = []
        self.executed = []
        self.cleanup = []  # tasks listed beside a fail command (documented clean-up)
        self.terminal_ctxs = []

    def _inbound_edges(self, n):
        return [(p, k) for p in self.wf.tasks for k, (_, _, do) in enumerate(self.wf.transitions(p)) if n in do]

    def _in_cycle(self, n):
        seen, todo = set(), [n]
        while todo:
            x = todo.pop()
            for _, _, do in self.wf.transitions(x):
                for t in do:
                    if t == n:
                        return True
                    if t in self.wf.tasks and t not in seen:
                        seen.add(t)
                        todo.append(t)
        return False

    def _new_pid(self, tok):
        self.pid += 1
        self.pubs[self.pid] = tok
        return self.pid

    def initial_ctx(self):
        ctx = {}
        for k, v in self.wf.inputs.items():
            ctx[k] = Binding(v, self._new_pid(v), frozenset())
        for k, v in self.wf.vars.items():
            ctx[k] = Binding(v, self._new_pid(v), frozenset())
        return ctx

    def start(self):
        init = self.initial_ctx()
        self.init = init
        return [Due(n, dict(init), "start task") for n in self.wf.roots()]

    def sat(self, cond, ok, bits, ctx):
        if cond == "any":
            return True
        if cond == "ok":
            return ok
        if cond == "fail":
            return not ok
        if cond == "c0":
            return ok and bits[0]
        if cond == "c1":
            return ok and bits[1]
        if cond == "raw0":
            return bool(bits[0])
        if cond == "raw1":
            return bool(bits[1])
        if isinstance(cond, tuple) and cond[0] == "lt":
            return ok and ctx[cond[1]].tok < cond[2]
        if isinstance(cond, tuple) and cond[0] == "ge":
            return ok and ctx[cond[1]].tok >= cond[2]
        raise ValueError(cond)

    def complete(self, task, octx, ok, bits, tokens, inst=()):
        """The execution of `task` that saw `octx` completed. tokens: (k, var) -> value token
        published by transition k. Returns the list of Due entries this completion causes."""
        self.executed.append(task)
        due = []
        handled = False
        fail_cmd = False
        continued = False
        for k, (cond, pubs, do) in enumerate(self.wf.transitions(task)):
            if not self.sat(cond, ok, bits, octx):
                continue
            published = dict(octx)
            for p in pubs:
                if isinstance(p, str):
                    var, tok = p, tokens[(k, p)]
                elif p[1] == "inc":
                    var, tok = p[0], published[p[0]].tok + 1
                elif isinstance(p[1], tuple) and p[1][0] == "copy":
                    # reads another variable of the context this transition is evaluated against
                    var, tok = p[0], published[p[1][1]].tok
                else:
                    var, tok = p[0], p[1][1]
                old = published.get(var)
                seen = frozenset() if old is None else frozenset({old.pid}) | old.seen
                published[var] = Binding(tok, self._new_pid(tok), seen)
            targets = do or ["continue"]
            beside_fail = "fail" in targets
            for tgt in targets:
                if tgt == "fail":
                    fail_cmd = True
                elif tgt == "noop":
                    handled = True
                elif tgt == "continue":
                    continued = True
                    self.terminal_ctxs.append(published)
                elif tgt == "retry":
                    handled = True
                elif self.wf.is_join(tgt):
                    handled = True
                    self.arrived[tgt][task] = True
                    key = (tgt, inst)
                    self.arrived_i.setdefault(key, {})[task] = True
                    acc = self.join_ctx.setdefault(key, {})
                    for var, b in published.items():
                        acc[var] = merge_binding(acc.get(var), b)
                    if len(self.arrived_i[key]) >= self.wf.need(tgt) and not self.fired_i.get(key):
                        self.fired_i[key] = 1
                        self.fired[tgt] += 1
                        due.append(Due(tgt, dict(acc), "barrier of %s satisfied by %s" % (tgt, task), inst))
                else:
                    handled = True
                    ninst = inst
                    if tgt in self.splits:
                        # every firing of a transition into a split task opens its own instance: a task
                        # inside a loop that transitions out of the loop on every iteration starts the
                        # split task (and everything downstream) once per iteration
                        n = self.split_fired.get((task, k, inst), 0)
                        self.split_fired[(task, k, inst)] = n + 1
                        ninst = inst + (((task, k) if n == 0 else (task, k, n)),)
                    d = Due(tgt, dict(published), "%s transition %d" % (task, k), ninst)
                    due.append(d)
                    if beside_fail:
                        self.cleanup.append(tgt)
        if not self.wf.transitions(task):
            self.terminal_ctxs.append(dict(octx))
        if fail_cmd:
            self.failed = True
            self.fail_reasons.append("fail command after %s" % task)
        if not ok and not handled:
            self.failed = True
            self.fail_reasons.append("failure of %s not handled" % task)
        return due

    def unreachable_joins(self):
        return sorted({j for (j, i), a in self.arrived_i.items() if a and not self.fired_i.get((j, i))})

    def expected_final(self):
        if self.failed or self.unreachable_joins():
            return "failed"
        return "succeeded"
