"""Verification toolkit for StackStorm/orquesta: solver-based checking of the real code.

Importing this package puts the repository under test first on sys.path. The path is
/repo unless VT_REPO points at a scratch copy (used only for mutation runs).
"""
import logging
import os
import sys

REPO = os.environ.get("VT_REPO", "/repo")
ROOT = os.path.dirname(os.path.dirname(os.path.abspath(__file__)))

if sys.path[0] != REPO:
    sys.path.insert(0, REPO)

logging.disable(logging.CRITICAL)
