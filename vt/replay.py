"""Native replay of a counterexample: same harness, ReplayChooser, no tracing, no solver."""
import importlib
import json
import sys
import traceback

import vt  # noqa: F401


def replay(ob, decisions):
    from vt.choice import ReplayChooser
    from vt.env import Violation
    from vt.xh import resolve

    body = resolve(ob["body"])
    d = {}
    for k, v in decisions:
        d[k] = v
    ch = ReplayChooser(d, fixed=ob.get("fixed"))
    params = dict(ob.get("params", {}))
    try:
        body(ch, {"counters": {}}, **params)
    except Violation as v:
        return {
            "reproduced": True,
            "signature": v.signature(),
            "violation": {"prop": v.prop, "monitor": v.monitor, "message": v.msg},
            "history": getattr(v, "log", None),
            "api_calls": getattr(v, "calls", None),
        }
    except Exception as e:
        return {"reproduced": False, "error": "%s: %s\n%s" % (type(e).__name__, e, traceback.format_exc())}
    return {"reproduced": False, "error": "the harness completed natively without a violation"}


def main():
    if sys.argv[1] == "--confirm":
        spec = json.loads(sys.stdin.read())
        mod = importlib.import_module("vt.harness." + spec["prop"])
        try:
            out = mod.confirm(spec["ob"], spec["cex"])
        except Exception as e:
            out = {"violation": None, "error": "%s: %s\n%s" % (type(e).__name__, e, traceback.format_exc())}
        print(json.dumps(out, default=str))
        return
    spec = json.loads(sys.stdin.read())
    print(json.dumps(replay(spec["ob"], spec["decisions"]), default=str))


if __name__ == "__main__":
    main()
